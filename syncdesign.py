#!/usr/bin/env python3
"""Copies design_status.md into DESIGN.md between the STATUS markers."""
import re
d = open('/verif/DESIGN.md').read()
s = open('/verif/design_status.md').read()
a = d.index('<!-- STATUS-BEGIN -->') + len('<!-- STATUS-BEGIN -->')
b = d.index('<!-- STATUS-END -->')
open('/verif/DESIGN.md', 'w').write(d[:a] + "\n" + s.strip() + "\n" + d[b:])
