#!/usr/bin/env python3
"""seedrun.py <PID> <worktree> <name> [check-args...]
Confirms a seeded change (demo fails with it, passes without it, package tests pass with it),
stores it under /verif/seeded/<name>/, runs ./check <PID> quick with VERIF_REPO=<worktree>."""
import sys, os, subprocess, json, shutil, glob, re
pid, wt, name = sys.argv[1], sys.argv[2], sys.argv[3]
extra = sys.argv[4:]
env = dict(os.environ, GOFLAGS="-mod=mod", GOPROXY="off", GOSUMDB="off", GOTOOLCHAIN="local")
def run(cmd, cwd, timeout=900):
    p = subprocess.run(cmd, cwd=cwd, env=env, shell=True, stdout=subprocess.PIPE, stderr=subprocess.STDOUT, text=True, timeout=timeout)
    return p.returncode, p.stdout
demos = [f for f in subprocess.run("git status --short | grep '^??' | awk '{print $2}' | grep _test.go", cwd=wt, shell=True, stdout=subprocess.PIPE, text=True).stdout.split()]
assert demos, "no demo test file found"
demo = demos[0]
pkg = "./" + os.path.dirname(demo) if os.path.dirname(demo) else "."
# the patch = tracked modifications
rc, diff = run("git diff", wt)
assert diff.strip(), "no change in worktree"
# 1. demo fails with the change
rc1, out1 = run("go test -vet=off -count=1 -run 'Seed|seed|Demo' %s" % pkg, wt)
# 2. demo passes without
open("/tmp/_seed_patch_%s.diff" % name, "w").write(diff)
run("git apply -R /tmp/_seed_patch_%s.diff" % name, wt)  # not git stash: refs/stash is shared by all worktrees
rc2, out2 = run("go test -vet=off -count=1 -run 'Seed|seed|Demo' %s" % pkg, wt)
run("git apply /tmp/_seed_patch_%s.diff" % name, wt)
# 3. existing tests pass with the change (demo moved away)
os.rename(os.path.join(wt, demo), "/tmp/_demo_away_%s.go" % name)
rc3, out3 = run("go build ./... && go test -vet=off -count=1 ./... 2>&1 | grep -v '^ok\\|no test files'", wt, timeout=1800)
os.rename("/tmp/_demo_away_%s.go" % name, os.path.join(wt, demo))
fails = [l for l in out3.splitlines() if l.startswith("--- FAIL") and "OverwriteSymlink_RemovalFailed" not in l]
confirmed = rc1 != 0 and rc2 == 0 and not fails
print("demo with change rc=%d, without rc=%d, other failing tests: %s => confirmed=%s" % (rc1, rc2, fails, confirmed))
d = os.path.join("/verif/seeded", name)
os.makedirs(d, exist_ok=True)
open(os.path.join(d, "patch.diff"), "w").write(diff)
shutil.copy(os.path.join(wt, demo), os.path.join(d, os.path.basename(demo) + ".txt"))
meta_txt = open(os.path.join(wt, "seed_meta.txt")).read() if os.path.exists(os.path.join(wt, "seed_meta.txt")) else ""
# 4. run our check against the change
# (the worktree holds the change: the check is pointed at it, /repo stays untouched)
tier = os.environ.get("SEED_TIER", "quick")
p = subprocess.run(["./check", pid, tier] + extra, cwd="/verif", env=dict(os.environ, VERIF_REPO=wt), stdout=subprocess.PIPE, stderr=subprocess.STDOUT, text=True, timeout=6000)
crc, cout = p.returncode, p.stdout
viol = re.findall(r"VIOLATION property=\S+ replay=\S+\n\s+entry=(\S+) label=(\S+)", cout)
print("check rc=%d violations=%s" % (crc, sorted(set(viol))[:6]))
print(cout[-1500:])
meta = {"property": pid, "name": name, "demo_file": demo, "demo_package": pkg,
        "confirmed_demo_fails_with_change": rc1 != 0, "confirmed_demo_passes_without_change": rc2 == 0,
        "existing_tests_pass_with_change": not fails,
        "needs_to_manifest": meta_txt, "ran": ["go test -run 'Seed|seed|Demo' %s (with and without the change)" % pkg, "go build ./... && go test ./... (demo moved away)", "./check %s quick %s" % (pid, " ".join(extra))],
        "check_exit": crc, "check_detected": crc == 1, "check_labels": sorted(set(l for _, l in viol))}
json.dump(meta, open(os.path.join(d, "meta.json"), "w"), indent=1)
