#!/bin/bash
# runs thorough checks one by one with a cap, to calibrate bounds
cd /verif
for P in "$@"; do
  s=$(date +%s)
  timeout ${CAP:-2400} ./check $P thorough > /tmp/calib_$P.log 2>&1
  rc=$?
  e=$(date +%s)
  echo "$P rc=$rc wall=$((e-s))s $(grep -c VIOLATION /tmp/calib_$P.log) violations; $(grep -m1 INCONCLUSIVE /tmp/calib_$P.log | cut -c1-160)" >> /tmp/calib.txt
done
