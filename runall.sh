#!/bin/bash
# runs every claimed check at the given tier and prints exit code + wall time
tier=${1:-quick}
cd /verif
for P in $(python3 -c "import json; print(' '.join(c['property_id'] for c in json.load(open('MANIFEST.json'))['checks']))"); do
  s=$(date +%s)
  timeout 7200 ./check $P $tier > /tmp/runall_$P.log 2>&1
  rc=$?
  e=$(date +%s)
  echo "$P rc=$rc wall=$((e-s))s $(grep -c VIOLATION /tmp/runall_$P.log) violations; $(grep -m1 INCONCLUSIVE /tmp/runall_$P.log | cut -c1-200)"
done
