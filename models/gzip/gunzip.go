package gzip
