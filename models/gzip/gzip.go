// Package gzip (verification model): a lossless framing codec with the API of compress/gzip.
//
// The symbolic executor loads this file in place of $GOROOT/src/compress/gzip/gzip.go (and an
// empty gunzip.go). It states the documented contract of the real package that the code under
// test relies on — NewReader(NewWriter(x)) yields x, a stream that is empty, has a bad header,
// is cut short, or whose recorded length does not match is refused — without DEFLATE and
// CRC-32, whose loops over the (symbolic) payload a bounded solver query cannot carry. The byte
// format differs from RFC 1952: nothing the library does depends on it (blobs are addressed by
// the digest of whatever the codec produced). Native replays run the real compress/gzip.
package gzip

import (
	"errors"
	"io"
	"time"
)

const (
	NoCompression      = 0
	BestSpeed          = 1
	BestCompression    = 9
	DefaultCompression = -1
	HuffmanOnly        = -2
)

var (
	ErrChecksum = errors.New("gzip: invalid checksum")
	ErrHeader   = errors.New("gzip: invalid header")
)

type Header struct {
	Comment string
	Extra   []byte
	ModTime time.Time
	Name    string
	OS      byte
}

var magic = [3]byte{0x1f, 0x8b, 'M'}

// ---- writer ----

type Writer struct {
	Header
	w           io.Writer
	level       int
	wroteHeader bool
	closed      bool
	size        uint32
	err         error
}

func NewWriter(w io.Writer) *Writer {
	z, _ := NewWriterLevel(w, DefaultCompression)
	return z
}

func NewWriterLevel(w io.Writer, level int) (*Writer, error) {
	if level < HuffmanOnly || level > BestCompression {
		return nil, errors.New("gzip: invalid compression level")
	}
	z := new(Writer)
	z.init(w, level)
	return z, nil
}

func (z *Writer) init(w io.Writer, level int) {
	*z = Writer{Header: Header{OS: 255}, w: w, level: level}
}

func (z *Writer) Reset(w io.Writer) { z.init(w, z.level) }

func (z *Writer) header() {
	if !z.wroteHeader {
		z.wroteHeader = true
		_, z.err = z.w.Write(magic[:])
	}
}

func be32(n uint32) []byte { return []byte{byte(n >> 24), byte(n >> 16), byte(n >> 8), byte(n)} }

func (z *Writer) Write(p []byte) (int, error) {
	if z.err != nil {
		return 0, z.err
	}
	z.header()
	if z.err != nil {
		return 0, z.err
	}
	if len(p) == 0 {
		return 0, nil
	}
	if _, z.err = z.w.Write(be32(uint32(len(p)))); z.err != nil {
		return 0, z.err
	}
	var n int
	n, z.err = z.w.Write(p)
	z.size += uint32(n)
	return n, z.err
}

func (z *Writer) Flush() error {
	if z.err != nil {
		return z.err
	}
	if z.closed {
		return nil
	}
	z.header()
	return z.err
}

func (z *Writer) Close() error {
	if z.err != nil {
		return z.err
	}
	if z.closed {
		return nil
	}
	z.closed = true
	z.header()
	if z.err != nil {
		return z.err
	}
	if _, z.err = z.w.Write(be32(0)); z.err != nil {
		return z.err
	}
	_, z.err = z.w.Write(be32(z.size))
	return z.err
}

// ---- reader ----

type Reader struct {
	Header
	r           io.Reader
	left        uint32 // bytes left in the current chunk
	size        uint32
	err         error
	multistream bool
}

func NewReader(r io.Reader) (*Reader, error) {
	z := new(Reader)
	if err := z.Reset(r); err != nil {
		return nil, err
	}
	return z, nil
}

func (z *Reader) Reset(r io.Reader) error {
	*z = Reader{r: r, multistream: true}
	z.err = z.readHeader()
	return z.err
}

func (z *Reader) Multistream(ok bool) { z.multistream = ok }

func noEOF(err error) error {
	if err == io.EOF {
		return io.ErrUnexpectedEOF
	}
	return err
}

func (z *Reader) readHeader() error {
	var h [3]byte
	if _, err := io.ReadFull(z.r, h[:]); err != nil {
		// an empty stream gives io.EOF, a short one io.ErrUnexpectedEOF (as the real package)
		return err
	}
	if h != magic {
		return ErrHeader
	}
	z.left, z.size = 0, 0
	return nil
}

func (z *Reader) read32() (uint32, error) {
	var b [4]byte
	if _, err := io.ReadFull(z.r, b[:]); err != nil {
		return 0, noEOF(err)
	}
	return uint32(b[0])<<24 | uint32(b[1])<<16 | uint32(b[2])<<8 | uint32(b[3]), nil
}

func (z *Reader) Read(p []byte) (int, error) {
	if z.err != nil {
		return 0, z.err
	}
	for z.left == 0 {
		n, err := z.read32()
		if err != nil {
			z.err = err
			return 0, err
		}
		if n != 0 {
			z.left = n
			break
		}
		// end of member: the recorded length must match
		total, err := z.read32()
		if err != nil {
			z.err = err
			return 0, err
		}
		if total != z.size {
			z.err = ErrChecksum
			return 0, z.err
		}
		if !z.multistream {
			z.err = io.EOF
			return 0, io.EOF
		}
		if err := z.readHeader(); err != nil {
			z.err = err // io.EOF when nothing follows
			return 0, err
		}
	}
	if len(p) == 0 {
		return 0, nil
	}
	if uint32(len(p)) > z.left {
		p = p[:z.left]
	}
	n, err := z.r.Read(p)
	z.left -= uint32(n)
	z.size += uint32(n)
	if n > 0 {
		return n, nil // a sticky source error is seen again by the next call
	}
	if err == io.EOF {
		err = io.ErrUnexpectedEOF // the terminator is still missing
	}
	if err != nil {
		z.err = err
	}
	return 0, err
}

func (z *Reader) Close() error { return nil }
