//go:build verif

// Package verifrt is the harness runtime. Under the symbolic engine (symgo) every function
// here is intercepted and given its symbolic meaning; this native implementation is used
// to replay counterexamples (values come from the file named by VERIFRT_REPLAY) and for
// differential validation of the engine (values drawn from VERIF_SEED).
package verifrt

import (
	"syscall"
	_ "crypto/sha256"
	_ "crypto/sha512"
	"encoding/json"
	"fmt"
	"math"
	"math/rand"
	"os"
	"path/filepath"
	"strings"
	"runtime"
	"sort"
	"strconv"
	"sync"
	"time"
)

const (
	SchedEager = 0
	SchedLazy  = 1
	SchedBoth  = 2
	SchedAll   = 3
)

type cexInput struct {
	Key  string `json:"key"`
	Idx  int    `json:"idx"`
	Kind string `json:"kind"`
	Val  uint64 `json:"val"`
}

type fsEntry struct {
	Path   string `json:"path"`
	Kind   string `json:"kind"`
	Mode   uint32 `json:"mode"`
	Data   []byte `json:"data"`
	Target string `json:"target"`
}

type cex struct {
	Label  string         `json:"label"`
	Entry  string         `json:"entry"`
	Inputs []cexInput     `json:"inputs"`
	Params map[string]int `json:"params"`
	FS     []fsEntry      `json:"fs"`
}

var (
	mu       sync.Mutex
	loaded   bool
	replay   *cex
	streams  map[string][]uint64
	pos      map[string]int
	rng      *rand.Rand
	Failures []string
	Reached  = map[string]int{}
	Events   []string
	exhausted bool
)

func load() {
	if loaded {
		return
	}
	loaded = true
	pos = map[string]int{}
	streams = map[string][]uint64{}
	if p := os.Getenv("VERIFRT_REPLAY"); p != "" {
		b, err := os.ReadFile(p)
		if err != nil {
			panic(err)
		}
		replay = &cex{}
		if err := json.Unmarshal(b, replay); err != nil {
			panic(err)
		}
		for _, in := range replay.Inputs {
			s := streams[in.Key]
			for len(s) <= in.Idx {
				s = append(s, 0)
			}
			s[in.Idx] = in.Val
			streams[in.Key] = s
		}
	}
	seed := int64(1)
	if s := os.Getenv("VERIF_SEED"); s != "" {
		seed, _ = strconv.ParseInt(s, 10, 64)
	}
	rng = rand.New(rand.NewSource(seed))
}

// Reset clears replay state (used between test cases in one process).
func Reset() {
	mu.Lock()
	defer mu.Unlock()
	loaded = false
	Failures = nil
	Reached = map[string]int{}
	Events = nil
	exhausted = false
	tempDirs = nil
	afterCrash = nil
	crashed = false
}

func next(key string, random func() uint64) uint64 {
	mu.Lock()
	defer mu.Unlock()
	load()
	i := pos[key]
	pos[key] = i + 1
	if replay != nil {
		s := streams[key]
		if i < len(s) {
			return s[i]
		}
		exhausted = true
		return 0
	}
	return random()
}

// Symbolic reports whether the harness runs under the symbolic engine.
func Symbolic() bool { return false }

func Bool() bool    { return BoolK("") }
func SymBool() bool { return BoolK("") }
func BoolK(key string) bool {
	return next(key, func() uint64 { return uint64(rng.Intn(2)) }) != 0
}

func Int(lo, hi int) int { return IntK("", lo, hi) }
func IntK(key string, lo, hi int) int {
	v := int(int64(next(key, func() uint64 { return uint64(int64(lo + rng.Intn(hi-lo+1))) })))
	if v < lo || v > hi {
		// values outside the assumed range cannot come from a model; clamp for robustness
		skip("input out of range")
	}
	return v
}
func Choice(n int) int               { return IntK("", 0, n-1) }
func ChoiceK(key string, n int) int  { return IntK(key, 0, n-1) }
func Concrete(x int) int             { return x }
func ConcreteBool(b bool) bool       { return b }
func Int64() int64                   { return int64(next("", func() uint64 { return rng.Uint64() })) }
func Uint64() uint64                 { return next("", func() uint64 { return rng.Uint64() }) }
func Int32() int32                   { return int32(next("", func() uint64 { return rng.Uint64() })) }
func Byte() byte                     { return ByteK("") }
func ByteK(key string) byte          { return byte(next(key, func() uint64 { return uint64(rng.Intn(256)) })) }
func Float64() float64               { return math.Float64frombits(next("", func() uint64 { return rng.Uint64() })) }

func Bytes(min, max int) []byte { return BytesK("", min, max) }
func BytesK(key string, min, max int) []byte {
	n := IntK(key, min, max)
	b := make([]byte, n)
	for i := range b {
		b[i] = ByteK(key)
	}
	return b
}
func String(min, max int) string { return string(Bytes(min, max)) }
func StringOver(alphabet string, min, max int) string {
	n := Int(min, max)
	b := make([]byte, n)
	for i := range b {
		if replay != nil {
			b[i] = Byte()
		} else {
			b[i] = alphabet[int(Byte())%len(alphabet)]
		}
	}
	return string(b)
}

type skipped struct{ why string }

func skip(why string) { panic(skipped{why}) }

// Assume abandons the run when cond is false (native runs with random inputs only).
func Assume(cond bool) {
	if !cond {
		skip("assumption false")
	}
}

func Assert(cond bool, label string) {
	if !cond {
		mu.Lock()
		Failures = append(Failures, label)
		mu.Unlock()
		fmt.Printf("ASSERT-FAILED %s\n", label)
	}
}

func Reach(label string) {
	mu.Lock()
	Reached[label]++
	mu.Unlock()
}

func Event(label string) {
	mu.Lock()
	Events = append(Events, label)
	mu.Unlock()
}

func And(a, b bool) bool     { return a && b }
func Or(a, b bool) bool      { return a || b }
func Not(a bool) bool        { return !a }
func Implies(a, b bool) bool { return !a || b }
func B2I(c bool) int {
	if c {
		return 1
	}
	return 0
}
func Ite[T any](c bool, a, b T) T {
	if c {
		return a
	}
	return b
}
func BytesEq(a, b []byte) bool { return string(a) == string(b) }
func StrEq(a, b string) bool   { return a == b }

func Param(name string, def int) int {
	mu.Lock()
	load()
	mu.Unlock()
	if replay != nil {
		if v, ok := replay.Params[name]; ok {
			return v
		}
	}
	if s := os.Getenv("VERIF_PARAM_" + name); s != "" {
		v, _ := strconv.Atoi(s)
		return v
	}
	return def
}

func Unwind(n int)     {}
func Steps(n int)      {}
func Sched(mode int)   {}
func MapOrder(mode int) {}
func Yield()           { runtime.Gosched() }

// Quiesce lets the other goroutines run until they block (natively: approximated by a pause).
func Quiesce() { time.Sleep(20 * time.Millisecond) }
func Note(s string)    {}
func Debug(args ...any) {}

var tempDirFn func() string

// SetTempDir is called by the replay test wrapper.
func SetTempDir(f func() string) { tempDirFn = f }
var (
	tempDirs   []string // native directories, in the order TempDir was called (model: /tmp/verif1, /tmp/verif2, ...)
	afterCrash func()
	crashed    bool
)

func TempDir() string {
	var d string
	if tempDirFn != nil {
		d = tempDirFn()
	} else {
		var err error
		d, err = os.MkdirTemp("", "verifrt")
		if err != nil {
			panic(err)
		}
	}
	mu.Lock()
	tempDirs = append(tempDirs, d)
	mu.Unlock()
	return d
}
// Umask returns the file-mode creation mask in force (the file-system model uses 022).
func Umask() int {
	m := syscall.Umask(0)
	syscall.Umask(m)
	return m
}
func CrashPoint()         {}
func AfterCrash(f func()) { afterCrash = f }
func Crashed() bool       { return crashed }

// restoreCrashState replaces the native temp directories by the file tree the model had at
// the crash point (paths under /tmp/verif<N> map to the N-th TempDir()).
func restoreCrashState(tree []fsEntry) {
	for i, d := range tempDirs {
		ents, _ := os.ReadDir(d)
		for _, e := range ents {
			p := filepath.Join(d, e.Name())
			os.Chmod(p, 0o755)
			filepath.Walk(p, func(q string, fi os.FileInfo, err error) error {
				if err == nil && fi.IsDir() {
					os.Chmod(q, 0o755)
				}
				return nil
			})
			os.RemoveAll(p)
		}
		prefix := fmt.Sprintf("/tmp/verif%d", i+1)
		for _, en := range tree {
			if en.Path != prefix && !strings.HasPrefix(en.Path, prefix+"/") {
				continue
			}
			p := d + strings.TrimPrefix(en.Path, prefix)
			switch en.Kind {
			case "dir":
				os.MkdirAll(p, 0o755)
			case "file":
				os.MkdirAll(filepath.Dir(p), 0o755)
				if err := os.WriteFile(p, en.Data, os.FileMode(en.Mode|0o600)); err != nil {
					panic(err)
				}
			case "link":
				os.MkdirAll(filepath.Dir(p), 0o755)
				os.Symlink(en.Target, p)
			}
		}
	}
}

// Run executes a harness entry natively and reports failed assertion labels.
// skippedRun is true when an Assume was false (possible only with random inputs).
func Run(entry func()) (failures []string, skippedRun bool, panicVal any) {
	Reset()
	func() {
		defer func() {
			if r := recover(); r != nil {
				if _, ok := r.(skipped); ok {
					skippedRun = true
					return
				}
				panicVal = r
			}
		}()
		entry()
		// crash counterexample: put the surviving file tree in place and run the recovery function
		if replay != nil && len(replay.FS) > 0 && afterCrash != nil {
			restoreCrashState(replay.FS)
			crashed = true
			afterCrash()
		}
	}()
	mu.Lock()
	defer mu.Unlock()
	return append([]string(nil), Failures...), skippedRun, panicVal
}

// ReachedLabels returns the reach labels hit so far, sorted.
func ReachedLabels() []string {
	mu.Lock()
	defer mu.Unlock()
	var r []string
	for k := range Reached {
		r = append(r, k)
	}
	sort.Strings(r)
	return r
}
