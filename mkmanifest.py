#!/usr/bin/env python3
"""Regenerates MANIFEST.json from harness/*/harness.json (claimed) and NA (not applicable)."""
import json, os, glob
ROOT = os.path.dirname(os.path.abspath(__file__))
NA = json.load(open(os.path.join(ROOT, "not_applicable.json")))
props = [json.loads(l) for l in open(os.path.join(ROOT, "properties.jsonl"))]
base = json.load(open("/root/.vp/BASELINE.json")) if os.path.exists("/root/.vp/BASELINE.json") else {"cmd": "cd /repo && go test -vet=off -count=1 ./..."}
checks, na = [], []
for p in props:
    pid = p["id"]
    hj = os.path.join(ROOT, "harness", pid, "harness.json")
    if os.path.exists(hj) and pid not in NA:
        h = json.load(open(hj))
        checks.append({
            "property_id": pid,
            "quick_cmd": "./check %s quick" % pid,
            "thorough_cmd": "./check %s thorough" % pid,
            "evidence_file": "/verif/evidence/%s.json" % pid,
            "replay_cmd_template": "./check %s --replay {path}" % pid,
            "engine": "symgo",
            "level_claimed": {"category": "model_checking",
                              "text": h.get("level_text", "bounded symbolic model checking of the real functions (go/ssa interpreted with SMT terms); every branch feasibility and every assertion is decided by z3 for all input values within the stated bounds; counterexamples are replayed against the natively compiled code before being reported"),
                              "design_ref": "DESIGN.md section 6, " + pid},
            "level_note": h.get("level_note", "trusted: the symgo interpreter and its boundary models (listed in evidence.assumptions/stubs), z3; bounds as in evidence.coverage.bounds; outside the claim: " + "; ".join(h.get("outside_claim", []))),
            "technique": "bounded symbolic execution of go/ssa + SMT (z3 4.8.12), native replay of counterexamples",
        })
    else:
        na.append({"property_id": pid, "reason": NA.get(pid, "check not built yet in this session (see DESIGN.md section 10, order of work)")})
m = {
    "version": 1,
    "setup_cmd": "cd /verif/engine && GOFLAGS=-mod=mod GOPROXY=off GOSUMDB=off GOTOOLCHAIN=local go build -o /verif/bin/symgo ./cmd/symgo",
    "hooks": {"guard": "verif", "enable": "harness sources and internal/verifrt are injected with go/packages Overlay and `go test -overlay` under -tags verif; no file is written into /repo",
              "baseline_off_cmd": base["cmd"], "source_commits": [], "add_only": True},
    "engines": [{"name": "symgo", "path": "/verif/engine", "serves_properties": [c["property_id"] for c in checks],
                 "kind_free_text": "own symbolic executor for Go SSA (x/tools v0.29.0 go/ssa) emitting SMT-LIB2 to z3/cvc5 over a pipe"}],
    "checks": checks,
    "not_applicable": na,
    "notes": "exit 0 = all obligations unsat within bounds; 1 = VIOLATION reproduced natively; 2 = INCONCLUSIVE (never a VIOLATION line). Known findings: known_findings.txt",
}
json.dump(m, open(os.path.join(ROOT, "MANIFEST.json"), "w"), indent=1)
print("claimed:", [c["property_id"] for c in checks], "n/a:", [x["property_id"] for x in na])
