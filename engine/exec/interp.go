package exec

import (
	"fmt"
	"os"
	"runtime/debug"
	"go/constant"
	"go/token"
	"go/types"
	"strings"

	"golang.org/x/tools/go/ssa"
	"symgo/smt"
)

type deferred struct {
	fn    Value
	args  []Value
	instr *ssa.Defer
	tail  *deferred
}

type frame struct {
	e                *Engine
	g                *G
	caller           *frame
	fn               *ssa.Function
	block, prevBlock *ssa.BasicBlock
	env              map[ssa.Value]Value
	locals           []Value
	defers           *deferred
	result           Value
	panicking        bool
	panic            interface{}
	phitemps         []Value
	backEdges        map[*ssa.BasicBlock]int
	curInstr         ssa.Instruction
}

type engineBug struct {
	msg   string
	stack string
}

func (b engineBug) String() string { return b.msg }

func boolV(b bool) *smt.Term { return smt.B(b) }

func (e *Engine) constValue(c *ssa.Const) Value {
	if v, ok := e.consts[c]; ok {
		return v
	}
	v := constValue(c)
	e.consts[c] = v
	return v
}

func constValue(c *ssa.Const) Value {
	if c.Value == nil {
		return zero(c.Type()) // typed nil / zero value of aggregate
	}
	t := c.Type().Underlying()
	if b, ok := t.(*types.Basic); ok {
		switch {
		case b.Info()&types.IsBoolean != 0:
			return smt.B(constant.BoolVal(c.Value))
		case b.Info()&types.IsInteger != 0:
			w, signed, _ := intInfo(b)
			if signed {
				return smt.ConstS(w, c.Int64())
			}
			return smt.Const(w, c.Uint64())
		case b.Info()&types.IsFloat != 0:
			return smt.ConstF(c.Float64())
		case b.Info()&types.IsString != 0:
			if c.Value.Kind() == constant.String {
				return mkStr(constant.StringVal(c.Value))
			}
			return mkStr(string(rune(c.Int64())))
		case b.Kind() == types.UnsafePointer:
			return UPtr{}
		}
	}
	if _, ok := t.(*types.TypeParam); ok {
		panic("constValue: type param")
	}
	panic(fmt.Sprintf("constValue: unexpected type %s", c.Type()))
}

func (fr *frame) get(key ssa.Value) Value {
	switch key := key.(type) {
	case nil:
		return nil
	case *ssa.Function:
		return key
	case *ssa.Builtin:
		return key
	case *ssa.Const:
		return fr.e.constValue(key)
	case *ssa.Global:
		if r, ok := fr.e.globals[key]; ok {
			if key.Pkg != nil {
				if why, bad := fr.e.poisoned[key.Pkg]; bad && !fr.e.inInit && !fr.e.okGlobals[key] {
					fr.e.unsupported("global " + key.String() + " of package whose init was skipped/failed: " + why)
				}
			}
			return r
		}
		// global of a package created lazily
		cell := zero(deref(key.Type()))
		fr.e.globals[key] = &cell
		return &cell
	}
	if r, ok := fr.env[key]; ok {
		return r
	}
	panic(fmt.Sprintf("get: no value for %T: %v in %s", key, key.Name(), fr.fn))
}

func (fr *frame) runDefer(d *deferred) {
	var ok bool
	defer func() {
		if !ok {
			r := recover()
			if _, isAbort := r.(pathAbort); isAbort {
				panic(r)
			}
			fr.panicking = true
			fr.panic = r
		}
	}()
	fr.e.callValue(fr, d.fn, d.args)
	ok = true
}

func (fr *frame) runDefers() {
	for d := fr.defers; d != nil; d = d.tail {
		fr.runDefer(d)
	}
	fr.defers = nil
	if fr.panicking {
		panic(fr.panic)
	}
}

func (e *Engine) lookupMethod(typ types.Type, meth *types.Func) *ssa.Function {
	return e.Prog.LookupMethod(typ, meth.Pkg(), meth.Name())
}

func (e *Engine) visitInstr(fr *frame, instr ssa.Instruction) bool /* returned */ {
	switch instr := instr.(type) {
	case *ssa.DebugRef:

	case *ssa.UnOp:
		fr.env[instr] = e.unop(fr, instr, fr.get(instr.X))

	case *ssa.BinOp:
		fr.env[instr] = e.binop(instr.Op, instr.X.Type(), fr.get(instr.X), fr.get(instr.Y), instr.Y.Type())

	case *ssa.Call:
		fn, args := e.prepareCall(fr, &instr.Call)
		fr.env[instr] = e.callValue(fr, fn, args)

	case *ssa.ChangeInterface:
		fr.env[instr] = fr.get(instr.X)

	case *ssa.ChangeType:
		fr.env[instr] = fr.get(instr.X)

	case *ssa.Convert:
		fr.env[instr] = e.conv(instr.Type(), instr.X.Type(), fr.get(instr.X))

	case *ssa.MultiConvert:
		fr.env[instr] = e.conv(instr.Type(), instr.X.Type(), fr.get(instr.X))

	case *ssa.SliceToArrayPointer:
		x := fr.get(instr.X).([]Value)
		n := int(deref(instr.Type()).Underlying().(*types.Array).Len())
		if len(x) < n {
			e.rtPanic("cannot convert slice to array pointer: length too short")
		}
		if x == nil {
			fr.env[instr] = (*Value)(nil)
		} else {
			// arrays are values; a pointer to a window over a slice cannot alias in this model
			e.unsupported("SliceToArrayPointer")
		}

	case *ssa.MakeInterface:
		fr.env[instr] = Iface{T: instr.X.Type(), V: fr.get(instr.X)}

	case *ssa.Extract:
		fr.env[instr] = fr.get(instr.Tuple).(Tuple)[instr.Index]

	case *ssa.Slice:
		fr.env[instr] = e.slice(fr, instr)

	case *ssa.Return:
		switch len(instr.Results) {
		case 0:
		case 1:
			fr.result = fr.get(instr.Results[0])
		default:
			res := make(Tuple, 0, len(instr.Results))
			for _, r := range instr.Results {
				res = append(res, fr.get(r))
			}
			fr.result = res
		}
		fr.block = nil
		return true

	case *ssa.RunDefers:
		fr.runDefers()

	case *ssa.Panic:
		panic(targetPanic{fr.get(instr.X)})

	case *ssa.Send:
		c, _ := fr.get(instr.Chan).(*Chan)
		e.chanSend(c, fr.get(instr.X))

	case *ssa.Store:
		if sp, ok := fr.get(instr.Addr).(*SymPtr); ok {
			e.symStore(sp, fr.get(instr.Val).(*smt.Term))
		} else {
			e.store(fr.get(instr.Addr).(*Value), fr.get(instr.Val))
		}

	case *ssa.If:
		succ := 1
		if e.branch(fr.get(instr.Cond).(*smt.Term)) {
			succ = 0
		}
		fr.jump(fr.block.Succs[succ])

	case *ssa.Jump:
		fr.jump(fr.block.Succs[0])

	case *ssa.Defer:
		fn, args := e.prepareCall(fr, &instr.Call)
		defers := &fr.defers
		if instr.DeferStack != nil {
			if into := fr.get(instr.DeferStack); into != nil {
				defers = into.(**deferred)
			}
		}
		*defers = &deferred{fn: fn, args: args, instr: instr, tail: *defers}

	case *ssa.Go:
		fn, args := e.prepareCall(fr, &instr.Call)
		e.spawn(func() { e.callValue(nil, fn, args) })

	case *ssa.MakeChan:
		fr.env[instr] = e.makeChan(instr.Type(), int(e.concInt(fr.get(instr.Size))))

	case *ssa.Alloc:
		var addr *Value
		if instr.Heap {
			addr = new(Value)
			fr.env[instr] = addr
			*addr = zero(deref(instr.Type()))
		} else {
			addr = fr.env[instr].(*Value)
			e.store(addr, zero(deref(instr.Type())))
		}

	case *ssa.MakeSlice:
		n := e.concInt(fr.get(instr.Len))
		c := e.concInt(fr.get(instr.Cap))
		if n < 0 || c < n || c > 1<<24 {
			e.rtPanic("makeslice: len out of range")
		}
		sl := make([]Value, c)
		tElt := instr.Type().Underlying().(*types.Slice).Elem()
		z := zero(tElt)
		for i := range sl {
			sl[i] = copyVal(z)
		}
		fr.env[instr] = sl[:n]

	case *ssa.MakeMap:
		fr.env[instr] = e.makeMap(instr.Type())

	case *ssa.Range:
		fr.env[instr] = e.rangeIter(fr.get(instr.X), instr.X.Type())

	case *ssa.Next:
		fr.env[instr] = fr.get(instr.Iter).(iter).next(e)

	case *ssa.FieldAddr:
		p := fr.get(instr.X).(*Value)
		if p == nil {
			e.rtPanic("invalid memory address or nil pointer dereference")
		}
		fr.env[instr] = &(*p).(Struct)[instr.Field]

	case *ssa.Field:
		fr.env[instr] = copyVal(fr.get(instr.X).(Struct)[instr.Field])

	case *ssa.IndexAddr:
		x := fr.get(instr.X)
		switch x := x.(type) {
		case []Value:
			if sp := e.symIndexAddr(x, fr.get(instr.Index), instr.Index.Type()); sp != nil {
				fr.env[instr] = sp
				break
			}
			i := e.index(fr.get(instr.Index), instr.Index.Type(), len(x))
			fr.env[instr] = &x[i]
		case *Value:
			if x == nil {
				e.rtPanic("invalid memory address or nil pointer dereference")
			}
			a := (*x).(Array)
			if sp := e.symIndexAddr([]Value(a), fr.get(instr.Index), instr.Index.Type()); sp != nil {
				fr.env[instr] = sp
				break
			}
			i := e.index(fr.get(instr.Index), instr.Index.Type(), len(a))
			fr.env[instr] = &a[i]
		default:
			panic(fmt.Sprintf("unexpected x type in IndexAddr: %T", x))
		}

	case *ssa.Index:
		x := fr.get(instr.X)
		switch x := x.(type) {
		case Array:
			fr.env[instr] = e.indexRead([]Value(x), fr.get(instr.Index), instr.Index.Type())
		case Str:
			idx := fr.get(instr.Index).(*smt.Term)
			if idx.IsConst() {
				i := e.index(idx, instr.Index.Type(), x.Len())
				fr.env[instr] = x.At(i)
			} else {
				vals := make([]Value, x.Len())
				for i := range vals {
					vals[i] = x.At(i)
				}
				fr.env[instr] = e.indexRead(vals, idx, instr.Index.Type())
			}
		default:
			panic(fmt.Sprintf("unexpected x type in Index: %T", x))
		}

	case *ssa.Lookup:
		fr.env[instr] = e.lookup(instr, fr.get(instr.X), fr.get(instr.Index))

	case *ssa.MapUpdate:
		m, _ := fr.get(instr.Map).(*Map)
		if m == nil {
			e.rtPanic("assignment to entry in nil map")
		}
		e.mapInsert(m, fr.get(instr.Key), copyVal(fr.get(instr.Value)))

	case *ssa.TypeAssert:
		fr.env[instr] = e.typeAssert(instr, fr.get(instr.X).(Iface))

	case *ssa.MakeClosure:
		var bindings []Value
		for _, binding := range instr.Bindings {
			bindings = append(bindings, fr.get(binding))
		}
		fr.env[instr] = &Closure{instr.Fn.(*ssa.Function), bindings}

	case *ssa.Phi:
		panic("unreachable phi")

	case *ssa.Select:
		fr.env[instr] = e.doSelect(fr, instr)

	default:
		panic(fmt.Sprintf("unexpected instruction: %T", instr))
	}
	return false
}

func (fr *frame) jump(to *ssa.BasicBlock) {
	if to.Index <= fr.block.Index {
		if fr.backEdges == nil {
			fr.backEdges = map[*ssa.BasicBlock]int{}
		}
		fr.backEdges[to]++
		if u := fr.e.unwind; u > 0 && fr.backEdges[to] > u {
			fr.e.abort("bound", fmt.Sprintf("unwind %d exceeded in %s", u, fr.fn))
		}
	}
	fr.prevBlock, fr.block = fr.block, to
}

// index turns an index value into a concrete in-range int, raising a bounds panic otherwise.
func (e *Engine) index(idx Value, t types.Type, n int) int {
	it := idx.(*smt.Term)
	if it.IsConst() {
		var i int64
		if _, signed, _ := intInfo(t); signed {
			i = it.SInt()
		} else {
			if it.Val > 1<<40 {
				i = -1
			} else {
				i = int64(it.Val)
			}
		}
		if i < 0 || i >= int64(n) {
			e.rtPanic(fmt.Sprintf("index out of range [%d] with length %d", i, n))
		}
		return int(i)
	}
	// symbolic: check range, then concretise
	inRange := inRangeTerm(it, n)
	if !e.branch(inRange) {
		e.rtPanic(fmt.Sprintf("index out of range [symbolic] with length %d", n))
	}
	return int(e.concretize(it))
}

// indexRead reads vals[idx] with a possibly symbolic index, building an ite chain for
// scalar elements instead of forking.
func (e *Engine) indexRead(vals []Value, idx Value, t types.Type) Value {
	it := idx.(*smt.Term)
	if it.IsConst() {
		return copyVal(vals[e.index(idx, t, len(vals))])
	}
	allTerms := len(vals) > 0
	for _, v := range vals {
		if _, ok := v.(*smt.Term); !ok {
			allTerms = false
			break
		}
	}
	if !allTerms {
		return copyVal(vals[e.index(idx, t, len(vals))])
	}
	w := it.S.W
	inRange := inRangeTerm(it, len(vals))
	if !e.branch(inRange) {
		e.rtPanic(fmt.Sprintf("index out of range [symbolic] with length %d", len(vals)))
	}
	_ = w
	ts := make([]*smt.Term, len(vals))
	for i := range ts {
		ts[i] = vals[i].(*smt.Term)
	}
	return muxTerms(ts, it)
}

func (e *Engine) slice(fr *frame, instr *ssa.Slice) Value {
	x := fr.get(instr.X)
	var Len, Cap int
	switch x := x.(type) {
	case Str:
		Len = x.Len()
		Cap = Len
	case []Value:
		Len = len(x)
		Cap = cap(x)
	case *Value:
		if x == nil {
			e.rtPanic("invalid memory address or nil pointer dereference")
		}
		a := (*x).(Array)
		Len = len(a)
		Cap = cap(a)
	}
	l := int64(0)
	if instr.Low != nil {
		l = e.concInt(fr.get(instr.Low))
	}
	h := int64(Len)
	if instr.High != nil {
		h = e.concInt(fr.get(instr.High))
	}
	m := int64(Cap)
	if instr.Max != nil {
		m = e.concInt(fr.get(instr.Max))
	}
	if _, isStr := x.(Str); isStr {
		if l < 0 || h < l || h > int64(Len) {
			e.rtPanic(fmt.Sprintf("slice bounds out of range [%d:%d] with length %d", l, h, Len))
		}
	} else if l < 0 || h < l || m < h || m > int64(Cap) {
		e.rtPanic(fmt.Sprintf("slice bounds out of range [%d:%d:%d] with capacity %d", l, h, m, Cap))
	}
	switch x := x.(type) {
	case Str:
		return x.Slice(int(l), int(h))
	case []Value:
		if x == nil {
			return []Value(nil)
		}
		return x[l:h:m]
	case *Value:
		a := (*x).(Array)
		return []Value(a)[l:h:m]
	}
	panic(fmt.Sprintf("slice: unexpected X type: %T", x))
}

func (e *Engine) typeAssert(instr *ssa.TypeAssert, itf Iface) Value {
	var v Value
	err := ""
	if itf.T == nil {
		err = fmt.Sprintf("interface conversion: interface is nil, not %s", instr.AssertedType)
	} else if idst, ok := instr.AssertedType.Underlying().(*types.Interface); ok {
		v = itf
		if meth, _ := types.MissingMethod(itf.T, idst, true); meth != nil {
			err = fmt.Sprintf("interface conversion: %v is not %v: missing method %s", itf.T, idst, meth.Name())
		}
	} else if types.Identical(itf.T, instr.AssertedType) {
		v = copyVal(itf.V)
	} else {
		err = fmt.Sprintf("interface conversion: interface is %s, not %s", itf.T, instr.AssertedType)
	}
	if err != "" {
		if !instr.CommaOk {
			e.rtPanic(err)
		}
		return Tuple{zero(instr.AssertedType), smt.False}
	}
	if instr.CommaOk {
		return Tuple{v, smt.True}
	}
	return v
}

func (e *Engine) prepareCall(fr *frame, call *ssa.CallCommon) (fn Value, args []Value) {
	v := fr.get(call.Value)
	if call.Method == nil {
		fn = v
	} else {
		recv := v.(Iface)
		if recv.T == nil {
			e.rtPanic("invalid memory address or nil pointer dereference (method call on nil interface)")
		}
		f := e.lookupMethod(recv.T, call.Method)
		if f == nil {
			panic(fmt.Sprintf("method set for dynamic type %v does not contain %s", recv.T, call.Method))
		}
		fn = f
		args = append(args, recv.V)
	}
	for _, arg := range call.Args {
		args = append(args, fr.get(arg))
	}
	return
}

// callValue calls a function value.
func (e *Engine) callValue(caller *frame, fn Value, args []Value) Value {
	switch fn := fn.(type) {
	case *ssa.Function:
		if fn == nil {
			e.rtPanic("call of nil function")
		}
		return e.callFn(caller, fn, args)
	case *Closure:
		if fn == nil {
			e.rtPanic("call of nil function")
		}
		return e.callSSA(caller, fn.Fn, args, fn.Env)
	case *ssa.Builtin:
		return e.callBuiltin(caller, fn, args)
	case *Native:
		fr := &frame{e: e, caller: caller, g: e.cur}
		return fn.F(fr, args)
	case nil:
		e.rtPanic("call of nil function")
	}
	panic(fmt.Sprintf("cannot call %T", fn))
}

func (e *Engine) callFn(caller *frame, fn *ssa.Function, args []Value) Value {
	return e.callSSA(caller, fn, args, nil)
}

func (e *Engine) modelFor(fn *ssa.Function) modelFn {
	if m, ok := e.fnModel[fn]; ok {
		return m
	}
	var m modelFn
	name := fn.String()
	if mm, ok := e.models[name]; ok {
		m = mm
	} else if o := fn.Origin(); o != nil {
		if mm, ok := e.models[o.String()]; ok {
			m = mm
		}
	}
	if m == nil && fn.Pkg != nil && strings.HasSuffix(fn.Pkg.Pkg.Path(), "internal/verifrt") {
		if mm, ok := e.models["verifrt."+fn.Name()]; ok {
			m = mm
		} else if o := fn.Origin(); o != nil {
			if mm, ok := e.models["verifrt."+o.Name()]; ok {
				m = mm
			}
		}
	}
	e.fnModel[fn] = m
	return m
}

var skipInit = map[string]bool{
	"runtime": true, "syscall": true, "vendor/golang.org/x/sys/cpu": true, "golang.org/x/sys/cpu": true, "vendor/golang.org/x/crypto/chacha20poly1305": true,
	"vendor/golang.org/x/crypto/sha3": true, "vendor/golang.org/x/crypto/internal/poly1305": true, "os": true, "reflect": true, "internal/poll": true,
	"internal/cpu": true, "internal/godebug": true, "internal/syscall/unix": true,
	"os/signal": true, "net": true, "crypto/tls": true, "crypto/x509": true, "net/http": true,
	"internal/testlog": true, "runtime/debug": true, "runtime/trace": true, "runtime/pprof": true,
	"testing": true, "flag": true, "log": true, "mime": true, "mime/multipart": true,
	"net/http/httptrace": true, "net/http/internal": true, "vendor/golang.org/x/net/http2/hpack": true,
	"vendor/golang.org/x/net/idna": true, "vendor/golang.org/x/text/unicode/norm": true,
	"vendor/golang.org/x/text/unicode/bidi": true, "net/textproto": false, "internal/reflectlite": true,
	"crypto/internal/boring": true, "crypto/internal/bigmod": true, "math/big": true, "encoding/json": true,
	"compress/flate": true, "compress/gzip": true, "os/user": true, "os/exec": true,
	"internal/abi": true, "internal/bytealg": true, "hash/crc32": true, "crypto/sha256": true, "crypto/sha512": true,
	"crypto/sha1": true, "crypto/md5": true, "crypto": false, "time": true, "internal/oserror": false,
	"net/netip": true, "net/url": false, "net/http/httputil": true,
	"golang.org/x/sync/singleflight": true, "crypto/rand": true, "math/rand": true, "math/rand/v2": true,
	"internal/chacha8rand": true, "encoding/base64": false, "fmt": true, "internal/fmtsort": true,
	"regexp": true, "regexp/syntax": true, "text/template": true, "html/template": true, "html": true,
	"encoding/hex": false, "unicode": false, "crypto/ecdsa": true, "crypto/elliptic": true,
	"crypto/rsa": true, "crypto/ed25519": true, "crypto/dsa": true, "encoding/asn1": true, "crypto/x509/pkix": true,
	"crypto/aes": true, "crypto/cipher": true, "crypto/des": true, "crypto/hmac": true, "crypto/rc4": true,
	"crypto/subtle": true, "crypto/ecdh": true, "crypto/internal/nistec": true, "crypto/internal/edwards25519": true,
	"crypto/sha3": true, "hash/maphash": true, "internal/nettrace": true, "internal/singleflight": true,
	"internal/intern": true, "unique": true, "internal/weak": true, "encoding/pem": true, "container/list": false,
	"compress/zlib": true, "hash/adler32": true, "io/ioutil": false, "log/slog": true, "log/internal": true,
}

// RunInit makes the executor run the init of a package that is skipped by default.
func RunInit(path string) { skipInit[path] = false }

func isPkgInit(fn *ssa.Function) bool {
	return fn.Pkg != nil && fn.Name() == "init" && fn.Signature.Recv() == nil && fn.Pkg.Func("init") == fn && fn.Parent() == nil
}

// callSSA interprets a call of fn.
func (e *Engine) callSSA(caller *frame, fn *ssa.Function, args []Value, env []Value) Value {
	if fn.Parent() == nil {
		if m := e.modelFor(fn); m != nil {
			fr := &frame{e: e, caller: caller, fn: fn, g: e.cur}
			return m(fr, args)
		}
		if isPkgInit(fn) {
			return e.callPkgInit(caller, fn)
		}
	}
	if fn.Blocks == nil {
		// try to build the package lazily (dependencies are built on demand)
		if fn.Pkg != nil {
			fn.Pkg.Build()
		}
		if fn.Blocks == nil {
			e.unsupported("no body: " + fn.String())
		}
	}
	if fn.TypeParams().Len() > 0 && len(fn.TypeArgs()) == 0 {
		e.unsupported("uninstantiated generic: " + fn.String())
	}
	if !e.inInit {
		e.funcCount[fn]++
	}
	fr := &frame{e: e, caller: caller, fn: fn, g: e.cur}
	depth := 0
	if caller != nil {
		depth = callDepth(caller) + 1
	}
	if depth > 400 {
		e.abort("bound", "call depth exceeded in "+fn.String())
	}
	fr.env = make(map[ssa.Value]Value, 16)
	fr.block = fn.Blocks[0]
	fr.locals = make([]Value, len(fn.Locals))
	for i, l := range fn.Locals {
		fr.locals[i] = zero(deref(l.Type()))
		fr.env[l] = &fr.locals[i]
	}
	for i, p := range fn.Params {
		fr.env[p] = args[i]
	}
	for i, fv := range fn.FreeVars {
		fr.env[fv] = env[i]
	}
	var savedFr *frame
	if e.cur != nil {
		savedFr = e.cur.fr
		e.cur.fr = fr
	}
	for fr.block != nil {
		e.runFrame(fr)
	}
	if e.cur != nil {
		e.cur.fr = savedFr
	}
	return fr.result
}

func callDepth(fr *frame) int {
	d := 0
	for f := fr; f != nil; f = f.caller {
		d++
	}
	return d
}

func (e *Engine) callPkgInit(caller *frame, fn *ssa.Function) Value {
	path := fn.Pkg.Pkg.Path()
	if e.initDone[fn.Pkg] {
		return nil
	}
	e.initDone[fn.Pkg] = true
	if skipInit[path] || strings.HasPrefix(path, "runtime/") || strings.HasPrefix(path, "internal/runtime") {
		e.poisoned[fn.Pkg] = "skipped"
		// the imports of a skipped package are still initialised
		for _, imp := range fn.Pkg.Pkg.Imports() {
			if ip := e.Prog.Package(imp); ip != nil {
				if f := ip.Func("init"); f != nil {
					e.callPkgInit(caller, f)
				}
			}
		}
		e.afterSkippedInit(fn.Pkg)
		return nil
	}
	func() {
		defer func() {
			if r := recover(); r != nil {
				if _, ok := r.(pathAbort); ok && e.inInit {
					e.poisoned[fn.Pkg] = e.outcome.Detail
					fmt.Fprintf(debugOut, "init of %s failed: %s %s\n", path, e.outcome.Kind, e.outcome.Detail)
					e.aborting = false
					e.outcome = Outcome{Kind: "ok"}
					return
				}
				if eb, ok := r.(engineBug); ok && e.inInit {
					e.poisoned[fn.Pkg] = "engine: " + eb.msg
					fmt.Fprintf(debugOut, "init of %s hit engine limitation: %s\n", path, eb.msg)
					return
				}
				if tp, ok := r.(targetPanic); ok && e.inInit {
					e.poisoned[fn.Pkg] = "panic " + toStringDebug(tp.v)
					fmt.Fprintf(debugOut, "init of %s panicked: %s\n", path, toStringDebug(tp.v))
					return
				}
				panic(r)
			}
		}()
		if fn.Blocks == nil {
			fn.Pkg.Build()
		}
		if fn.Blocks == nil {
			return
		}
		fr := &frame{e: e, caller: caller, fn: fn, g: e.cur}
		fr.env = make(map[ssa.Value]Value)
		fr.block = fn.Blocks[0]
		fr.locals = make([]Value, len(fn.Locals))
		for i, l := range fn.Locals {
			fr.locals[i] = zero(deref(l.Type()))
			fr.env[l] = &fr.locals[i]
		}
		for fr.block != nil {
			e.runFrame(fr)
		}
	}()
	return nil
}

func (e *Engine) runFrame(fr *frame) {
	defer func() {
		if fr.block == nil {
			return // normal return
		}
		r := recover()
		if _, isAbort := r.(pathAbort); isAbort {
			panic(r)
		}
		if _, isTarget := r.(targetPanic); !isTarget {
			// engine bug (Go runtime error inside the interpreter): do not let target code recover it
			if _, wrapped := r.(engineBug); !wrapped {
				where := fr.fn.String()
				if fr.curInstr != nil {
					where += " @ " + fr.curInstr.String() + " " + e.Prog.Fset.Position(fr.curInstr.Pos()).String()
				}
				r = engineBug{fmt.Sprintf("%v in %s", r, where), string(debug.Stack())}
			}
			panic(r)
		}
		fr.panicking = true
		fr.panic = r
		fr.runDefers()
		fr.block = fr.fn.Recover
	}()
	for {
		// phis
		instrs := fr.block.Instrs
		firstNonPhi := 0
		for firstNonPhi < len(instrs) {
			if _, ok := instrs[firstNonPhi].(*ssa.Phi); !ok {
				break
			}
			firstNonPhi++
		}
		if firstNonPhi > 0 {
			predIndex := -1
			for i, p := range fr.block.Preds {
				if p == fr.prevBlock {
					predIndex = i
					break
				}
			}
			fr.phitemps = fr.phitemps[:0]
			for _, phi := range instrs[:firstNonPhi] {
				fr.phitemps = append(fr.phitemps, fr.get(phi.(*ssa.Phi).Edges[predIndex]))
			}
			for i, phi := range instrs[:firstNonPhi] {
				fr.env[phi.(*ssa.Phi)] = fr.phitemps[i]
			}
		}
		e.steps += int64(len(instrs) - firstNonPhi)
		if e.steps > e.maxSteps && !e.inInit {
			e.abort("bound", "step budget exceeded")
		}
		for _, instr := range instrs[firstNonPhi:] {
			fr.curInstr = instr
			if traceFn != "" && strings.Contains(fr.fn.String(), traceFn) {
				fmt.Fprintf(os.Stderr, "TRACE %s: %v\n", fr.fn.Name(), instr)
			}
			if e.visitInstr(fr, instr) {
				return
			}
			if traceFn != "" && strings.Contains(fr.fn.String(), traceFn) {
				if v, ok := instr.(ssa.Value); ok {
					fmt.Fprintf(os.Stderr, "TRACE    = %s\n", toStringDebug(fr.env[v]))
				}
			}
		}
	}
}

// doRecover implements recover().
func (e *Engine) doRecover(caller *frame) Value {
	if caller != nil && !caller.panicking && caller.caller != nil && caller.caller.panicking {
		p := caller.caller.panic
		if tp, ok := p.(targetPanic); ok {
			caller.caller.panicking = false
			caller.caller.panic = nil
			if _, isIface := tp.v.(Iface); isIface {
				return tp.v
			}
			return tp.v
		}
	}
	return Iface{}
}

var _ = token.NoPos

// traceFn (env SYMGO_TRACE): print every instruction executed in functions whose name contains it.
var traceFn = os.Getenv("SYMGO_TRACE")


// SymPtr is a pointer to an element of a slice/array of scalars selected by a symbolic
// (in-range) index. Loads build an ite chain, stores update every element conditionally.
type SymPtr struct {
	elems []Value
	idx   *smt.Term
}

func (e *Engine) symIndexAddr(elems []Value, idx Value, t types.Type) *SymPtr {
	it := idx.(*smt.Term)
	if it.IsConst() || len(elems) == 0 || len(elems) > 512 {
		return nil
	}
	for _, v := range elems {
		if _, ok := v.(*smt.Term); !ok {
			return nil
		}
	}
	inRange := inRangeTerm(it, len(elems))
	if !e.branch(inRange) {
		e.rtPanic(fmt.Sprintf("index out of range [symbolic] with length %d", len(elems)))
	}
	return &SymPtr{elems: elems, idx: it}
}

func (e *Engine) symLoad(sp *SymPtr) Value {
	ts := make([]*smt.Term, len(sp.elems))
	for i := range ts {
		ts[i] = sp.elems[i].(*smt.Term)
	}
	return muxTerms(ts, sp.idx)
}

// muxTerms selects ts[idx] (idx known to be in range) as a balanced multiplexer over the
// bits of idx; out-of-range positions repeat the last element.
func muxTerms(ts []*smt.Term, idx *smt.Term) *smt.Term {
	n := len(ts)
	bits := 0
	for (1 << uint(bits)) < n {
		bits++
	}
	if bits > idx.S.W {
		bits = idx.S.W
	}
	var rec func(lo, bit int) *smt.Term
	rec = func(lo, bit int) *smt.Term {
		if lo >= n {
			return ts[n-1]
		}
		if bit < 0 {
			return ts[lo]
		}
		b := smt.Eq(smt.Extract(idx, bit, bit), smt.Const(1, 1))
		hi := rec(lo+(1<<uint(bit)), bit-1)
		low := rec(lo, bit-1)
		return smt.Ite(b, hi, low)
	}
	return rec(0, bits-1)
}

func (e *Engine) symStore(sp *SymPtr, v *smt.Term) {
	w := sp.idx.S.W
	for i := range sp.elems {
		old := sp.elems[i].(*smt.Term)
		e.store(&sp.elems[i], smt.Ite(smt.Eq(sp.idx, smt.Const(w, uint64(i))), v, old))
	}
}


// inRangeTerm is 0 <= it < n for an index of any width (unsigned comparison also rejects
// negative signed indexes).
func inRangeTerm(it *smt.Term, n int) *smt.Term {
	w := it.S.W
	if w < 64 && uint64(n) > (uint64(1)<<uint(w))-1 {
		return smt.True
	}
	return smt.Ult(it, smt.Const(w, uint64(n)))
}
