package exec

import (
	"go/types"
	"regexp"
	"regexp/syntax"
	"unicode"

	"symgo/smt"
)

type reInfo struct {
	src  string
	re   *regexp.Regexp
	prog *syntax.Prog
}

var regexTab = map[*Value]*reInfo{}

func (e *Engine) compileRegexp(src string, must bool) Value {
	re, err := regexp.Compile(src)
	rp := e.Prog.ImportedPackage("regexp")
	if rp == nil {
		e.unsupported("regexp package not loaded")
	}
	rt := rp.Type("Regexp").Object().Type()
	if err != nil {
		if must {
			panic(targetPanic{Iface{T: types.Typ[types.String], V: mkStr("regexp: Compile: " + err.Error())}})
		}
		return Tuple{(*Value)(nil), e.mkError(mkStr(err.Error()), nil)}
	}
	parsed, _ := syntax.Parse(src, syntax.Perl)
	prog, _ := syntax.Compile(parsed.Simplify())
	var cell Value = zero(rt)
	p := &cell
	regexTab[p] = &reInfo{src: src, re: re, prog: prog}
	if must {
		return p
	}
	return Tuple{p, Iface{}}
}

func (e *Engine) reOf(v Value) *reInfo {
	p, _ := v.(*Value)
	ri := regexTab[p]
	if ri == nil {
		e.unsupported("regexp object not created by the model")
	}
	return ri
}

// runeMatch returns the condition under which byte b matches instruction i (ASCII model).
func runeMatch(i *syntax.Inst, b *smt.Term) *smt.Term {
	switch i.Op {
	case syntax.InstRuneAny:
		return smt.True
	case syntax.InstRuneAnyNotNL:
		return smt.Not(smt.Eq(b, byteConst['\n']))
	}
	rs := i.Rune
	fold := syntax.Flags(i.Arg)&syntax.FoldCase != 0
	r := smt.False
	one := func(c rune) {
		if c >= 0 && c < 256 {
			r = smt.Or(r, byteEq(b, byteConst[byte(c)]))
		}
	}
	if len(rs) == 1 {
		one(rs[0])
		if fold {
			for f := unicode.SimpleFold(rs[0]); f != rs[0]; f = unicode.SimpleFold(f) {
				one(f)
			}
		}
		return r
	}
	for k := 0; k+1 < len(rs); k += 2 {
		lo, hi := rs[k], rs[k+1]
		if lo > 255 {
			continue
		}
		if hi > 255 {
			hi = 255
		}
		if lo == hi {
			one(lo)
			continue
		}
		r = smt.Or(r, byteInRange(b, byte(lo), byte(hi)))
	}
	return r
}

func isWordByte(b *smt.Term) *smt.Term {
	return smt.OrN(
		smt.And(smt.Ule(byteConst['a'], b), smt.Ule(b, byteConst['z'])),
		smt.And(smt.Ule(byteConst['A'], b), smt.Ule(b, byteConst['Z'])),
		smt.And(smt.Ule(byteConst['0'], b), smt.Ule(b, byteConst['9'])),
		smt.Eq(b, byteConst['_']))
}

// reMatch builds the Bool term "prog matches somewhere in s" (bytes treated as runes).
func (e *Engine) reMatch(ri *reInfo, s Str) *smt.Term {
	if c, ok := s.Concrete(); ok {
		return smt.B(ri.re.MatchString(c))
	}
	e.Assumptions["regexp over symbolic strings: bytes treated as ASCII runes"] = true
	prog := ri.prog
	n := s.Len()
	matched := smt.False
	cur := map[int]*smt.Term{}
	var order []int
	emptyCond := func(op syntax.EmptyOp, pos int) *smt.Term {
		c := smt.True
		if op&syntax.EmptyBeginText != 0 && pos != 0 {
			return smt.False
		}
		if op&syntax.EmptyEndText != 0 && pos != n {
			return smt.False
		}
		if op&syntax.EmptyBeginLine != 0 && pos != 0 {
			c = smt.And(c, smt.Eq(s.At(pos-1), byteConst['\n']))
		}
		if op&syntax.EmptyEndLine != 0 && pos != n {
			c = smt.And(c, smt.Eq(s.At(pos), byteConst['\n']))
		}
		if op&(syntax.EmptyWordBoundary|syntax.EmptyNoWordBoundary) != 0 {
			before, after := smt.False, smt.False
			if pos > 0 {
				before = isWordByte(s.At(pos - 1))
			}
			if pos < n {
				after = isWordByte(s.At(pos))
			}
			wb := smt.Not(smt.Eq(before, after))
			if op&syntax.EmptyWordBoundary != 0 {
				c = smt.And(c, wb)
			}
			if op&syntax.EmptyNoWordBoundary != 0 {
				c = smt.And(c, smt.Not(wb))
			}
		}
		return c
	}
	var add func(set map[int]*smt.Term, ord *[]int, pc int, cond *smt.Term, pos int, onstack map[int]bool)
	add = func(set map[int]*smt.Term, ord *[]int, pc int, cond *smt.Term, pos int, onstack map[int]bool) {
		if cond.IsFalse() || onstack[pc] {
			return
		}
		inst := &prog.Inst[pc]
		switch inst.Op {
		case syntax.InstFail:
			return
		case syntax.InstMatch:
			matched = smt.Or(matched, cond)
			return
		case syntax.InstRune, syntax.InstRune1, syntax.InstRuneAny, syntax.InstRuneAnyNotNL:
			if old, ok := set[pc]; ok {
				set[pc] = smt.Or(old, cond)
			} else {
				set[pc] = cond
				*ord = append(*ord, pc)
			}
			return
		}
		onstack[pc] = true
		switch inst.Op {
		case syntax.InstAlt, syntax.InstAltMatch:
			add(set, ord, int(inst.Out), cond, pos, onstack)
			add(set, ord, int(inst.Arg), cond, pos, onstack)
		case syntax.InstNop, syntax.InstCapture:
			add(set, ord, int(inst.Out), cond, pos, onstack)
		case syntax.InstEmptyWidth:
			add(set, ord, int(inst.Out), smt.And(cond, emptyCond(syntax.EmptyOp(inst.Arg), pos)), pos, onstack)
		}
		delete(onstack, pc)
	}
	for pos := 0; pos <= n; pos++ {
		// unanchored search: a new thread may start at every position
		add(cur, &order, prog.Start, smt.True, pos, map[int]bool{})
		if pos == n {
			break
		}
		next := map[int]*smt.Term{}
		var nextOrder []int
		b := s.At(pos)
		for _, pc := range order {
			inst := &prog.Inst[pc]
			c := smt.And(cur[pc], runeMatch(inst, b))
			add(next, &nextOrder, int(inst.Out), c, pos+1, map[int]bool{})
		}
		cur, order = next, nextOrder
	}
	return matched
}

func registerRegexp(m map[string]modelFn) {
	m["regexp.MustCompile"] = func(fr *frame, a []Value) Value {
		return fr.e.compileRegexp(fr.e.concStr(a[0], "regexp"), true)
	}
	m["regexp.Compile"] = func(fr *frame, a []Value) Value {
		return fr.e.compileRegexp(fr.e.concStr(a[0], "regexp"), false)
	}
	m["(*regexp.Regexp).MatchString"] = func(fr *frame, a []Value) Value {
		return fr.e.reMatch(fr.e.reOf(a[0]), a[1].(Str))
	}
	m["(*regexp.Regexp).Match"] = func(fr *frame, a []Value) Value {
		return fr.e.reMatch(fr.e.reOf(a[0]), valsToStr(a[1]))
	}
	m["(*regexp.Regexp).String"] = func(fr *frame, a []Value) Value {
		return mkStr(fr.e.reOf(a[0]).src)
	}
	m["(*regexp.Regexp).FindStringSubmatch"] = func(fr *frame, a []Value) Value {
		ri := fr.e.reOf(a[0])
		s := fr.e.concStr(a[1], "FindStringSubmatch input")
		r := ri.re.FindStringSubmatch(s)
		if r == nil {
			return []Value(nil)
		}
		out := make([]Value, len(r))
		for i := range r {
			out[i] = mkStr(r[i])
		}
		return out
	}
	m["(*regexp.Regexp).FindStringSubmatchIndex"] = func(fr *frame, a []Value) Value {
		ri := fr.e.reOf(a[0])
		s := fr.e.concStr(a[1], "FindStringSubmatchIndex input")
		r := ri.re.FindStringSubmatchIndex(s)
		if r == nil {
			return []Value(nil)
		}
		out := make([]Value, len(r))
		for i := range r {
			out[i] = intC(int64(r[i]))
		}
		return out
	}
	m["(*regexp.Regexp).FindString"] = func(fr *frame, a []Value) Value {
		ri := fr.e.reOf(a[0])
		return mkStr(ri.re.FindString(fr.e.concStr(a[1], "FindString input")))
	}
	m["(*regexp.Regexp).ReplaceAllString"] = func(fr *frame, a []Value) Value {
		ri := fr.e.reOf(a[0])
		return mkStr(ri.re.ReplaceAllString(fr.e.concStr(a[1], "src"), fr.e.concStr(a[2], "repl")))
	}
	m["regexp.QuoteMeta"] = func(fr *frame, a []Value) Value {
		return mkStr(regexp.QuoteMeta(fr.e.concStr(a[0], "QuoteMeta")))
	}
}
