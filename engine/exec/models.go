package exec

import (
	"fmt"
	"go/types"
	"io"
	"os"
	"strings"

	"golang.org/x/tools/go/ssa"
	"symgo/smt"
)

type modelFn func(fr *frame, args []Value) Value

var extraModels []func(m map[string]modelFn)

var debugOut io.Writer = os.Stderr

func term(v Value) *smt.Term { return v.(*smt.Term) }

func (e *Engine) concStr(v Value, what string) string {
	s, ok := v.(Str).Concrete()
	if !ok {
		// concretise every byte
		st := v.(Str)
		bs := make([]byte, st.Len())
		for i := range bs {
			bs[i] = byte(e.concretize(st.At(i)))
		}
		return string(bs)
	}
	return s
}

func buildModels() map[string]modelFn {
	m := map[string]modelFn{}
	registerVerifrt(m)
	registerSync(m)
	registerRuntime(m)
	registerStrings(m)
	registerErrorsFmt(m)
	registerMisc(m)
	registerRegexp(m)
	registerHash(m)
	registerJSON(m)
	registerFS(m)
	registerTime(m)
	for _, f := range extraModels {
		f(m)
	}
	return m
}

// afterSkippedInit sets up the few globals of skipped packages that interpreted code reads.
func (e *Engine) afterSkippedInit(pkg *ssa.Package) {
	switch pkg.Pkg.Path() {
	case "os":
		e.setupOSGlobals(pkg)
	case "time":
		e.setupTimeGlobals(pkg)
	case "net/http":
		e.setupHTTPGlobals(pkg)
	}
}

// ---------------------------------------------------------------------------------------
// verifrt

func registerVerifrt(m map[string]modelFn) {
	key := func(args []Value, i int) string {
		if i < len(args) {
			if s, ok := args[i].(Str); ok {
				c, _ := s.Concrete()
				return c
			}
		}
		return ""
	}
	m["verifrt.Symbolic"] = func(fr *frame, a []Value) Value { return smt.True }
	// Bool: an arbitrary boolean decided by forking (both values are feasible for a fresh input, so
	// no query is needed); SymBool keeps the value symbolic.
	flip := func(fr *frame, k string) Value {
		e := fr.e
		t := e.input(k, "bool", smt.Bool)
		if e.choose(2, "bool") == 0 {
			e.addPC(t)
			return smt.True
		}
		e.addPC(smt.Not(t))
		return smt.False
	}
	m["verifrt.Bool"] = func(fr *frame, a []Value) Value { return flip(fr, "") }
	m["verifrt.BoolK"] = func(fr *frame, a []Value) Value { return flip(fr, key(a, 0)) }
	m["verifrt.SymBool"] = func(fr *frame, a []Value) Value { return fr.e.input("", "bool", smt.Bool) }
	intRange := func(fr *frame, k string, lo, hi Value) Value {
		e := fr.e
		t := e.input(k, "int", smt.BV(64))
		l, h := term(lo), term(hi)
		e.assume(smt.And(smt.Sle(l, t), smt.Sle(t, h)))
		return t
	}
	m["verifrt.Int"] = func(fr *frame, a []Value) Value { return intRange(fr, "", a[0], a[1]) }
	m["verifrt.IntK"] = func(fr *frame, a []Value) Value { return intRange(fr, key(a, 0), a[1], a[2]) }
	// Choice: 0..n-1 by forking; every alternative is feasible by construction, so no query.
	choice := func(fr *frame, k string, nv Value) Value {
		e := fr.e
		n := int(e.concInt(nv))
		t := e.input(k, "int", smt.BV(64))
		if n <= 0 {
			e.abort("assume", "Choice(0)")
		}
		c := e.choose(n, "choice")
		e.addPC(smt.Eq(t, intC(int64(c))))
		return intC(int64(c))
	}
	m["verifrt.Choice"] = func(fr *frame, a []Value) Value { return choice(fr, "", a[0]) }
	m["verifrt.ChoiceK"] = func(fr *frame, a []Value) Value { return choice(fr, key(a, 0), a[1]) }
	m["verifrt.Concrete"] = func(fr *frame, a []Value) Value {
		t := term(a[0])
		return smt.Const(t.S.W, fr.e.concretize(t))
	}
	m["verifrt.ConcreteBool"] = func(fr *frame, a []Value) Value {
		return smt.B(fr.e.branch(term(a[0])))
	}
	m["verifrt.Int64"] = func(fr *frame, a []Value) Value { return fr.e.input("", "int64", smt.BV(64)) }
	m["verifrt.Uint64"] = func(fr *frame, a []Value) Value { return fr.e.input("", "uint64", smt.BV(64)) }
	m["verifrt.Int32"] = func(fr *frame, a []Value) Value { return fr.e.input("", "int32", smt.BV(32)) }
	m["verifrt.Byte"] = func(fr *frame, a []Value) Value { return fr.e.input("", "byte", smt.BV(8)) }
	m["verifrt.ByteK"] = func(fr *frame, a []Value) Value { return fr.e.input(key(a, 0), "byte", smt.BV(8)) }
	m["verifrt.Float64"] = func(fr *frame, a []Value) Value {
		bits := fr.e.input("", "float64", smt.BV(64))
		return smt.FFromBits(bits)
	}
	symLen := func(fr *frame, k string, lo, hi Value) int {
		e := fr.e
		l, h := int(e.concInt(lo)), int(e.concInt(hi))
		if h < l {
			e.abort("assume", "empty length range")
		}
		t := e.input(k, "int", smt.BV(64))
		c := l + e.choose(h-l+1, "len")
		e.addPC(smt.Eq(t, intC(int64(c))))
		return c
	}
	m["verifrt.Bytes"] = func(fr *frame, a []Value) Value {
		n := symLen(fr, "", a[0], a[1])
		r := make([]Value, n)
		for i := range r {
			r[i] = fr.e.input("", "byte", smt.BV(8))
		}
		return r
	}
	m["verifrt.BytesK"] = func(fr *frame, a []Value) Value {
		n := symLen(fr, key(a, 0), a[1], a[2])
		r := make([]Value, n)
		for i := range r {
			r[i] = fr.e.input(key(a, 0), "byte", smt.BV(8))
		}
		return r
	}
	m["verifrt.String"] = func(fr *frame, a []Value) Value {
		n := symLen(fr, "", a[0], a[1])
		r := make([]*smt.Term, n)
		for i := range r {
			r[i] = fr.e.input("", "byte", smt.BV(8))
		}
		if n == 0 {
			return Str{}
		}
		return Str{B: r}
	}
	m["verifrt.StringOver"] = func(fr *frame, a []Value) Value {
		e := fr.e
		alpha, _ := a[0].(Str).Concrete()
		n := symLen(fr, "", a[1], a[2])
		r := make([]*smt.Term, n)
		for i := range r {
			b := e.input("", "byte", smt.BV(8))
			ok := smt.False
			for j := 0; j < len(alpha); j++ {
				ok = smt.Or(ok, smt.Eq(b, byteConst[alpha[j]]))
			}
			if len(alpha) == 0 {
				e.abort("assume", "empty alphabet")
			}
			e.addPC(ok) // a fresh variable constrained to a non-empty set: always satisfiable
			r[i] = b
		}
		if n == 0 {
			return Str{}
		}
		return Str{B: r}
	}
	m["verifrt.Assume"] = func(fr *frame, a []Value) Value { fr.e.assume(term(a[0])); return nil }
	m["verifrt.Assert"] = func(fr *frame, a []Value) Value {
		lbl, _ := a[1].(Str).Concrete()
		fr.e.assert(term(a[0]), lbl)
		return nil
	}
	m["verifrt.Reach"] = func(fr *frame, a []Value) Value {
		lbl, _ := a[0].(Str).Concrete()
		fr.e.Reach[lbl]++
		fr.e.pathReach = append(fr.e.pathReach, lbl)
		return nil
	}
	m["verifrt.Event"] = func(fr *frame, a []Value) Value {
		lbl, _ := a[0].(Str).Concrete()
		if len(fr.e.events) < 200 {
			fr.e.events = append(fr.e.events, lbl)
		}
		return nil
	}
	m["verifrt.And"] = func(fr *frame, a []Value) Value { return smt.And(term(a[0]), term(a[1])) }
	m["verifrt.Or"] = func(fr *frame, a []Value) Value { return smt.Or(term(a[0]), term(a[1])) }
	m["verifrt.Not"] = func(fr *frame, a []Value) Value { return smt.Not(term(a[0])) }
	m["verifrt.Implies"] = func(fr *frame, a []Value) Value { return smt.Implies(term(a[0]), term(a[1])) }
	m["verifrt.B2I"] = func(fr *frame, a []Value) Value { return smt.Ite(term(a[0]), intC(1), intC(0)) }
	m["verifrt.Ite"] = func(fr *frame, a []Value) Value { return fr.e.iteValue(term(a[0]), a[1], a[2]) }
	m["verifrt.BytesEq"] = func(fr *frame, a []Value) Value {
		x, _ := a[0].([]Value)
		y, _ := a[1].([]Value)
		if len(x) != len(y) {
			return smt.False
		}
		r := smt.True
		for i := range x {
			r = smt.And(r, smt.Eq(term(x[i]), term(y[i])))
		}
		return r
	}
	m["verifrt.StrEq"] = func(fr *frame, a []Value) Value { return strEq(a[0].(Str), a[1].(Str)) }
	m["verifrt.Param"] = func(fr *frame, a []Value) Value {
		name, _ := a[0].(Str).Concrete()
		if v, ok := fr.e.Params[name]; ok {
			return intC(int64(v))
		}
		return a[1]
	}
	m["verifrt.Unwind"] = func(fr *frame, a []Value) Value { fr.e.unwind = int(fr.e.concInt(a[0])); return nil }
	m["verifrt.Steps"] = func(fr *frame, a []Value) Value { fr.e.maxSteps = fr.e.concInt(a[0]); return nil }
	m["verifrt.Sched"] = func(fr *frame, a []Value) Value { fr.e.schedMode = int(fr.e.concInt(a[0])); return nil }
	m["verifrt.MapOrder"] = func(fr *frame, a []Value) Value { fr.e.mapOrderPerm = fr.e.concInt(a[0]) != 0; return nil }
	m["verifrt.Yield"] = func(fr *frame, a []Value) Value { fr.e.yield(); return nil }
	// Quiesce: let every other goroutine run until it is blocked or finished
	m["verifrt.Quiesce"] = func(fr *frame, a []Value) Value {
		e := fr.e
		for i := 0; i < 10000; i++ {
			any := false
			for _, o := range e.runq {
				if !o.finished && o != e.cur && (o.ready == nil || o.ready()) {
					any = true
					break
				}
			}
			if !any {
				return nil
			}
			e.yield()
		}
		e.abort("bound", "Quiesce: other goroutines never block")
		return nil
	}
	m["verifrt.Note"] = func(fr *frame, a []Value) Value {
		s, _ := a[0].(Str).Concrete()
		fr.e.Assumptions[s] = true
		return nil
	}
	m["verifrt.Debug"] = func(fr *frame, a []Value) Value {
		if fr.e.Verbose > 0 {
			var parts []string
			for _, x := range a {
				if sl, ok := x.([]Value); ok {
					for _, y := range sl {
						parts = append(parts, toStringDebug(y))
					}
				} else {
					parts = append(parts, toStringDebug(x))
				}
			}
			fmt.Fprintln(debugOut, "DEBUG:", strings.Join(parts, " "))
		}
		return nil
	}
	m["verifrt.Umask"] = func(fr *frame, a []Value) Value { return intC(0o022) }
	m["verifrt.TempDir"] = func(fr *frame, a []Value) Value { return mkStr(fr.e.fs().tempDir()) }
	m["verifrt.CrashPoint"] = func(fr *frame, a []Value) Value { fr.e.fs().armCrash(fr.e); return nil }
	m["verifrt.AfterCrash"] = func(fr *frame, a []Value) Value { fr.e.afterCrash = a[0]; return nil }
	m["verifrt.Crashed"] = func(fr *frame, a []Value) Value { return smt.B(fr.e.outcome.Detail == "after-crash") }
}

// iteValue builds c ? a : b without forking where possible.
func (e *Engine) iteValue(c *smt.Term, a, b Value) Value {
	if c.IsConst() {
		if c.IsTrue() {
			return a
		}
		return b
	}
	switch x := a.(type) {
	case *smt.Term:
		return smt.Ite(c, x, b.(*smt.Term))
	case Str:
		y := b.(Str)
		if x.Len() == y.Len() {
			r := make([]*smt.Term, x.Len())
			for i := range r {
				r[i] = smt.Ite(c, x.At(i), y.At(i))
			}
			return mkStrB(r)
		}
	case Struct:
		y := b.(Struct)
		r := make(Struct, len(x))
		for i := range x {
			r[i] = e.iteValue(c, x[i], y[i])
		}
		return r
	}
	if e.branch(c) {
		return a
	}
	return b
}

// ---------------------------------------------------------------------------------------
// sync, sync/atomic

// firstTermAddr descends into first fields until it finds a scalar cell.
func firstTermAddr(p *Value) *Value {
	for {
		switch v := (*p).(type) {
		case Struct:
			p = &v[0]
		case Array:
			p = &v[0]
		default:
			return p
		}
	}
}

func fieldAddr(p *Value, i int) *Value {
	return &(*p).(Struct)[i]
}

func (e *Engine) setInt(p *Value, v int64) {
	t := (*p).(*smt.Term)
	e.store(p, smt.ConstS(t.S.W, v))
}

func getInt(p *Value) int64 {
	return (*p).(*smt.Term).SInt()
}

func registerSync(m map[string]modelFn) {
	// Mutex: first scalar field = 0 unlocked / 1 locked
	lock := func(fr *frame, p *Value) {
		e := fr.e
		if p == nil {
			e.rtPanic("nil mutex")
		}
		st := firstTermAddr(p)
		e.park("mutex", func() bool { return getInt(st) == 0 })
		e.setInt(st, 1)
	}
	unlock := func(fr *frame, p *Value) {
		e := fr.e
		st := firstTermAddr(p)
		if getInt(st) == 0 {
			panic(targetPanic{Iface{T: types.Typ[types.String], V: mkStr("sync: unlock of unlocked mutex")}})
		}
		e.setInt(st, 0)
	}
	m["(*sync.Mutex).Lock"] = func(fr *frame, a []Value) Value { lock(fr, a[0].(*Value)); return nil }
	m["(*sync.Mutex).Unlock"] = func(fr *frame, a []Value) Value { unlock(fr, a[0].(*Value)); return nil }
	m["(*sync.Mutex).TryLock"] = func(fr *frame, a []Value) Value {
		st := firstTermAddr(a[0].(*Value))
		if getInt(st) == 0 {
			fr.e.setInt(st, 1)
			return smt.True
		}
		return smt.False
	}
	// RWMutex{w Mutex; writerSem; readerSem; readerCount; readerWait}: writerSem=writer held, readerSem=#readers
	m["(*sync.RWMutex).Lock"] = func(fr *frame, a []Value) Value {
		p := a[0].(*Value)
		w, r := fieldAddr(p, 1), fieldAddr(p, 2)
		fr.e.park("rwmutex.Lock", func() bool { return getInt(w) == 0 && getInt(r) == 0 })
		fr.e.setInt(w, 1)
		return nil
	}
	m["(*sync.RWMutex).Unlock"] = func(fr *frame, a []Value) Value {
		p := a[0].(*Value)
		w := fieldAddr(p, 1)
		if getInt(w) == 0 {
			panic(targetPanic{Iface{T: types.Typ[types.String], V: mkStr("sync: Unlock of unlocked RWMutex")}})
		}
		fr.e.setInt(w, 0)
		return nil
	}
	m["(*sync.RWMutex).RLock"] = func(fr *frame, a []Value) Value {
		p := a[0].(*Value)
		w, r := fieldAddr(p, 1), fieldAddr(p, 2)
		fr.e.park("rwmutex.RLock", func() bool { return getInt(w) == 0 })
		fr.e.setInt(r, getInt(r)+1)
		return nil
	}
	m["(*sync.RWMutex).RUnlock"] = func(fr *frame, a []Value) Value {
		p := a[0].(*Value)
		r := fieldAddr(p, 2)
		if getInt(r) == 0 {
			panic(targetPanic{Iface{T: types.Typ[types.String], V: mkStr("sync: RUnlock of unlocked RWMutex")}})
		}
		fr.e.setInt(r, getInt(r)-1)
		return nil
	}
	m["(*sync.RWMutex).RLocker"] = nil
	delete(m, "(*sync.RWMutex).RLocker")
	// WaitGroup{noCopy; state atomic.Uint64; sema uint32}: sema = counter
	m["(*sync.WaitGroup).Add"] = func(fr *frame, a []Value) Value {
		p := a[0].(*Value)
		c := fieldAddr(p, 2)
		d := fr.e.concInt(a[1])
		n := getInt(c) + d
		if n < 0 {
			panic(targetPanic{Iface{T: types.Typ[types.String], V: mkStr("sync: negative WaitGroup counter")}})
		}
		fr.e.setInt(c, n)
		return nil
	}
	m["(*sync.WaitGroup).Done"] = func(fr *frame, a []Value) Value {
		p := a[0].(*Value)
		c := fieldAddr(p, 2)
		n := getInt(c) - 1
		if n < 0 {
			panic(targetPanic{Iface{T: types.Typ[types.String], V: mkStr("sync: negative WaitGroup counter")}})
		}
		fr.e.setInt(c, n)
		return nil
	}
	m["(*sync.WaitGroup).Wait"] = func(fr *frame, a []Value) Value {
		p := a[0].(*Value)
		c := fieldAddr(p, 2)
		fr.e.park("waitgroup", func() bool { return getInt(c) == 0 })
		return nil
	}
	// sync.Pool: Get calls New (if any); Put drops
	// sync.Pool: a per-path free list (what Get returns is unspecified anyway)
	m["(*sync.Pool).Get"] = func(fr *frame, a []Value) Value {
		p := a[0].(*Value)
		if free, ok := fr.e.side[p].([]Value); ok && len(free) > 0 {
			v := free[len(free)-1]
			fr.e.side[p] = free[:len(free)-1]
			return v
		}
		st := (*p).(Struct)
		newFn := st[len(st)-1]
		if isNilFunc(newFn) {
			return Iface{}
		}
		return fr.e.callValue(fr, newFn, nil)
	}
	m["(*sync.Pool).Put"] = func(fr *frame, a []Value) Value {
		p := a[0].(*Value)
		free, _ := fr.e.side[p].([]Value)
		fr.e.side[p] = append(free, a[1])
		return nil
	}

	// sync.Map as a side-table Map keyed by receiver
	smap := func(fr *frame, p *Value) *Map {
		e := fr.e
		if mm, ok := e.side[p]; ok {
			return mm.(*Map)
		}
		any := types.NewInterfaceType(nil, nil)
		mm := &Map{kt: any, vt: any, idx: map[string]*entry{}}
		e.side[p] = mm
		return mm
	}
	m["(*sync.Map).Load"] = func(fr *frame, a []Value) Value {
		mm := smap(fr, a[0].(*Value))
		if v, ok := fr.e.mapGet(mm, a[1]); ok {
			return Tuple{v, smt.True}
		}
		return Tuple{Iface{}, smt.False}
	}
	m["(*sync.Map).Store"] = func(fr *frame, a []Value) Value {
		fr.e.mapInsert(smap(fr, a[0].(*Value)), a[1], a[2])
		return nil
	}
	m["(*sync.Map).LoadOrStore"] = func(fr *frame, a []Value) Value {
		mm := smap(fr, a[0].(*Value))
		if v, ok := fr.e.mapGet(mm, a[1]); ok {
			return Tuple{v, smt.True}
		}
		fr.e.mapInsert(mm, a[1], a[2])
		return Tuple{a[2], smt.False}
	}
	m["(*sync.Map).LoadAndDelete"] = func(fr *frame, a []Value) Value {
		mm := smap(fr, a[0].(*Value))
		if v, ok := fr.e.mapGet(mm, a[1]); ok {
			fr.e.mapDelete(mm, a[1])
			return Tuple{v, smt.True}
		}
		return Tuple{Iface{}, smt.False}
	}
	m["(*sync.Map).Delete"] = func(fr *frame, a []Value) Value {
		fr.e.mapDelete(smap(fr, a[0].(*Value)), a[1])
		return nil
	}
	m["(*sync.Map).CompareAndSwap"] = func(fr *frame, a []Value) Value {
		mm := smap(fr, a[0].(*Value))
		if v, ok := fr.e.mapGet(mm, a[1]); ok {
			if fr.e.branch(fr.e.equals(mm.vt, v, a[2])) {
				fr.e.mapInsert(mm, a[1], a[3])
				return smt.True
			}
		}
		return smt.False
	}
	m["(*sync.Map).Range"] = func(fr *frame, a []Value) Value {
		mm := smap(fr, a[0].(*Value))
		for _, en := range append([]*entry(nil), mm.ents...) {
			if en.deleted {
				continue
			}
			r := fr.e.callValue(fr, a[1], []Value{en.key, en.val})
			if !fr.e.branch(term(r)) {
				break
			}
		}
		return nil
	}

	// atomics: leaf functions operate on the addressed cell
	for _, w := range []string{"Int32", "Int64", "Uint32", "Uint64", "Uintptr"} {
		w := w
		m["sync/atomic.Load"+w] = func(fr *frame, a []Value) Value { return fr.e.load(a[0].(*Value)) }
		m["sync/atomic.Store"+w] = func(fr *frame, a []Value) Value { fr.e.store(a[0].(*Value), a[1]); return nil }
		m["sync/atomic.Add"+w] = func(fr *frame, a []Value) Value {
			p := a[0].(*Value)
			n := smt.Add(term(fr.e.load(p)), term(a[1]))
			fr.e.store(p, n)
			return n
		}
		m["sync/atomic.Swap"+w] = func(fr *frame, a []Value) Value {
			p := a[0].(*Value)
			old := fr.e.load(p)
			fr.e.store(p, a[1])
			return old
		}
		m["sync/atomic.CompareAndSwap"+w] = func(fr *frame, a []Value) Value {
			p := a[0].(*Value)
			if fr.e.branch(smt.Eq(term(fr.e.load(p)), term(a[1]))) {
				fr.e.store(p, a[2])
				return smt.True
			}
			return smt.False
		}
		m["sync/atomic.And"+w] = func(fr *frame, a []Value) Value {
			p := a[0].(*Value)
			old := term(fr.e.load(p))
			fr.e.store(p, smt.BvAnd(old, term(a[1])))
			return old
		}
		m["sync/atomic.Or"+w] = func(fr *frame, a []Value) Value {
			p := a[0].(*Value)
			old := term(fr.e.load(p))
			fr.e.store(p, smt.BvOr(old, term(a[1])))
			return old
		}
	}
	m["sync/atomic.LoadPointer"] = func(fr *frame, a []Value) Value { return fr.e.load(a[0].(*Value)) }
	m["sync/atomic.StorePointer"] = func(fr *frame, a []Value) Value { fr.e.store(a[0].(*Value), a[1]); return nil }
	m["sync/atomic.SwapPointer"] = func(fr *frame, a []Value) Value {
		p := a[0].(*Value)
		old := fr.e.load(p)
		fr.e.store(p, a[1])
		return old
	}
	m["sync/atomic.CompareAndSwapPointer"] = func(fr *frame, a []Value) Value {
		p := a[0].(*Value)
		cur, _ := fr.e.load(p).(UPtr)
		old, _ := a[1].(UPtr)
		if cur.P == old.P || (isNilPtr(cur.P) && isNilPtr(old.P)) {
			fr.e.store(p, a[2])
			return smt.True
		}
		return smt.False
	}
	// atomic.Value{v any}
	m["(*sync/atomic.Value).Load"] = func(fr *frame, a []Value) Value {
		p := a[0].(*Value)
		return (*fieldAddr(p, 0))
	}
	m["(*sync/atomic.Value).Store"] = func(fr *frame, a []Value) Value {
		p := a[0].(*Value)
		fr.e.store(fieldAddr(p, 0), a[1])
		return nil
	}
	m["(*sync/atomic.Value).Swap"] = func(fr *frame, a []Value) Value {
		p := a[0].(*Value)
		old := *fieldAddr(p, 0)
		fr.e.store(fieldAddr(p, 0), a[1])
		return old
	}
	m["(*sync/atomic.Value).CompareAndSwap"] = func(fr *frame, a []Value) Value {
		p := a[0].(*Value)
		cur := *fieldAddr(p, 0)
		if fr.e.branch(fr.e.equals(nil, cur, a[1])) {
			fr.e.store(fieldAddr(p, 0), a[2])
			return smt.True
		}
		return smt.False
	}
}

func isNilPtr(v Value) bool {
	switch p := v.(type) {
	case nil:
		return true
	case *Value:
		return p == nil
	case UPtr:
		return isNilPtr(p.P)
	}
	return false
}

// ---------------------------------------------------------------------------------------
// runtime and friends

func registerRuntime(m map[string]modelFn) {
	nop := func(fr *frame, a []Value) Value { return nil }
	for _, n := range []string{"runtime.KeepAlive", "runtime.GC", "runtime.SetFinalizer", "runtime.Gosched",
		"internal/race.Acquire", "internal/race.Release", "internal/race.ReleaseMerge", "internal/race.Disable",
		"internal/race.Enable", "internal/race.Read", "internal/race.Write", "internal/race.ReadRange", "internal/race.WriteRange",
		"sync.runtime_registerPoolCleanup", "sync.runtime_notifyListCheck", "sync.throw", "sync.fatal",
		"internal/godebug.(*Setting).IncNonDefault", "runtime.AddCleanup"} {
		m[n] = nop
	}
	m["runtime.Gosched"] = func(fr *frame, a []Value) Value { fr.e.yield(); return nil }
	m["runtime.GOMAXPROCS"] = func(fr *frame, a []Value) Value { return intC(4) }
	m["runtime.NumCPU"] = func(fr *frame, a []Value) Value { return intC(4) }
	m["internal/godebug.New"] = func(fr *frame, a []Value) Value { return (*Value)(nil) }
	m["(*internal/godebug.Setting).Value"] = func(fr *frame, a []Value) Value { return Str{} }
	m["(*internal/godebug.Setting).Name"] = func(fr *frame, a []Value) Value { return Str{} }
	m["(*internal/godebug.Setting).IncNonDefault"] = func(fr *frame, a []Value) Value { return nil }
	m["(*internal/godebug.Setting).Undocumented"] = func(fr *frame, a []Value) Value { return smt.False }
	m["runtime.Caller"] = func(fr *frame, a []Value) Value {
		return Tuple{smt.Const(64, 0), mkStr("?"), intC(0), smt.False}
	}
	m["runtime.Callers"] = func(fr *frame, a []Value) Value { return intC(0) }
	m["internal/reflectlite.TypeOf"] = func(fr *frame, a []Value) Value {
		rp := fr.e.Prog.ImportedPackage("internal/reflectlite")
		if rp == nil {
			return Iface{}
		}
		rt := rp.Type("rtype").Object().Type()
		return Iface{T: rt, V: zero(rt)}
	}
	m["(internal/reflectlite.rtype).Comparable"] = func(fr *frame, a []Value) Value { return smt.True }
	m["(internal/reflectlite.rtype).String"] = func(fr *frame, a []Value) Value { return mkStr("T") }
	m["(internal/reflectlite.rtype).Elem"] = func(fr *frame, a []Value) Value {
		rp := fr.e.Prog.ImportedPackage("internal/reflectlite")
		rt := rp.Type("rtype").Object().Type()
		return Iface{T: rt, V: a[0]}
	}
	m["os.runtime_args"] = func(fr *frame, a []Value) Value { return []Value(nil) }
	m["unsafe.String"] = nil
	delete(m, "unsafe.String")
}

// ---------------------------------------------------------------------------------------
// strings/bytes assembly leaves

func valsToStr(v Value) Str {
	switch x := v.(type) {
	case Str:
		return x
	case []Value:
		bs := make([]*smt.Term, len(x))
		for i := range x {
			bs[i] = x[i].(*smt.Term)
		}
		return mkStrB(bs)
	case nil:
		return Str{}
	}
	panic(fmt.Sprintf("valsToStr %T", v))
}

// indexByte returns the index of the first occurrence of c in s, forking as needed.
func (e *Engine) indexByte(s Str, c *smt.Term) int {
	for i := 0; i < s.Len(); i++ {
		if e.branch(smt.Eq(s.At(i), c)) {
			return i
		}
	}
	return -1
}

func (e *Engine) lastIndexByte(s Str, c *smt.Term) int {
	for i := s.Len() - 1; i >= 0; i-- {
		if e.branch(smt.Eq(s.At(i), c)) {
			return i
		}
	}
	return -1
}

func (e *Engine) indexStr(s, sub Str) int {
	n := sub.Len()
	for i := 0; i+n <= s.Len(); i++ {
		if e.branch(strEq(s.Slice(i, i+n), sub)) {
			return i
		}
	}
	return -1
}

func registerStrings(m map[string]modelFn) {
	m["internal/bytealg.IndexByteString"] = func(fr *frame, a []Value) Value {
		return intC(int64(fr.e.indexByte(a[0].(Str), term(a[1]))))
	}
	m["internal/bytealg.IndexByte"] = func(fr *frame, a []Value) Value {
		return intC(int64(fr.e.indexByte(valsToStr(a[0]), term(a[1]))))
	}
	m["internal/bytealg.LastIndexByteString"] = func(fr *frame, a []Value) Value {
		return intC(int64(fr.e.lastIndexByte(a[0].(Str), term(a[1]))))
	}
	m["internal/bytealg.LastIndexByte"] = func(fr *frame, a []Value) Value {
		return intC(int64(fr.e.lastIndexByte(valsToStr(a[0]), term(a[1]))))
	}
	m["internal/bytealg.IndexString"] = func(fr *frame, a []Value) Value {
		return intC(int64(fr.e.indexStr(a[0].(Str), a[1].(Str))))
	}
	m["internal/bytealg.Index"] = func(fr *frame, a []Value) Value {
		return intC(int64(fr.e.indexStr(valsToStr(a[0]), valsToStr(a[1]))))
	}
	m["strings.Index"] = func(fr *frame, a []Value) Value {
		return intC(int64(fr.e.indexStr(a[0].(Str), a[1].(Str))))
	}
	m["strings.IndexByte"] = m["internal/bytealg.IndexByteString"]
	m["strings.LastIndexByte"] = m["internal/bytealg.LastIndexByteString"]
	m["bytes.IndexByte"] = m["internal/bytealg.IndexByte"]
	m["bytes.Index"] = m["internal/bytealg.Index"]
	count := func(fr *frame, s Str, c *smt.Term) Value {
		n := 0
		for i := 0; i < s.Len(); i++ {
			if fr.e.branch(smt.Eq(s.At(i), c)) {
				n++
			}
		}
		return intC(int64(n))
	}
	m["internal/bytealg.CountString"] = func(fr *frame, a []Value) Value { return count(fr, a[0].(Str), term(a[1])) }
	m["internal/bytealg.Count"] = func(fr *frame, a []Value) Value { return count(fr, valsToStr(a[0]), term(a[1])) }
	m["internal/bytealg.Equal"] = func(fr *frame, a []Value) Value { return strEq(valsToStr(a[0]), valsToStr(a[1])) }
	m["bytes.Equal"] = m["internal/bytealg.Equal"]
	m["internal/bytealg.Compare"] = func(fr *frame, a []Value) Value {
		x, y := valsToStr(a[0]), valsToStr(a[1])
		return smt.Ite(strLess(x, y), intC(-1), smt.Ite(strEq(x, y), intC(0), intC(1)))
	}
	m["bytes.Compare"] = m["internal/bytealg.Compare"]
	m["strings.Compare"] = func(fr *frame, a []Value) Value {
		x, y := a[0].(Str), a[1].(Str)
		return smt.Ite(strLess(x, y), intC(-1), smt.Ite(strEq(x, y), intC(0), intC(1)))
	}
	m["internal/stringslite.Index"] = m["strings.Index"]
	m["internal/stringslite.IndexByte"] = m["internal/bytealg.IndexByteString"]
	m["internal/bytealg.MakeNoZero"] = func(fr *frame, a []Value) Value {
		n := fr.e.concInt(a[0])
		r := make([]Value, n)
		for i := range r {
			r[i] = byteConst[0]
		}
		return r
	}
	m["strings.HasPrefix"] = func(fr *frame, a []Value) Value {
		s, p := a[0].(Str), a[1].(Str)
		if s.Len() < p.Len() {
			return smt.False
		}
		return strEq(s.Slice(0, p.Len()), p)
	}
	m["strings.HasSuffix"] = func(fr *frame, a []Value) Value {
		s, p := a[0].(Str), a[1].(Str)
		if s.Len() < p.Len() {
			return smt.False
		}
		return strEq(s.Slice(s.Len()-p.Len(), s.Len()), p)
	}
	m["internal/stringslite.HasPrefix"] = m["strings.HasPrefix"]
	m["internal/stringslite.HasSuffix"] = m["strings.HasSuffix"]
	m["bytes.HasPrefix"] = func(fr *frame, a []Value) Value {
		s, p := valsToStr(a[0]), valsToStr(a[1])
		if s.Len() < p.Len() {
			return smt.False
		}
		return strEq(s.Slice(0, p.Len()), p)
	}
	// strings.Builder / unsafe string tricks
	m["(*strings.Builder).String"] = func(fr *frame, a []Value) Value {
		p := a[0].(*Value)
		buf := (*fieldAddr(p, 1))
		return valsToStr(buf)
	}
	m["(*strings.Builder).copyCheck"] = func(fr *frame, a []Value) Value { return nil }
	m["(*strings.Builder).grow"] = func(fr *frame, a []Value) Value {
		p := a[0].(*Value)
		n := int(fr.e.concInt(a[1]))
		bp := fieldAddr(p, 1)
		old, _ := (*bp).([]Value)
		nb := make([]Value, len(old), 2*cap(old)+n)
		copy(nb, old)
		full := nb[:cap(nb)]
		for i := len(old); i < len(full); i++ {
			full[i] = byteConst[0]
		}
		fr.e.store(bp, nb)
		return nil
	}
	m["unsafe.String"] = func(fr *frame, a []Value) Value { return nil }
	delete(m, "unsafe.String")
	m["strings.Clone"] = func(fr *frame, a []Value) Value { return a[0] }
	m["strings.EqualFold"] = func(fr *frame, a []Value) Value {
		x, y := a[0].(Str), a[1].(Str)
		cx, ok1 := x.Concrete()
		cy, ok2 := y.Concrete()
		if ok1 && ok2 {
			return smt.B(strings.EqualFold(cx, cy))
		}
		if x.Len() != y.Len() {
			// non-ASCII folding can change length; assume ASCII
			fr.e.Assumptions["strings.EqualFold on symbolic strings modelled for ASCII only"] = true
			return smt.False
		}
		fr.e.Assumptions["strings.EqualFold on symbolic strings modelled for ASCII only"] = true
		r := smt.True
		for i := 0; i < x.Len(); i++ {
			r = smt.And(r, smt.Eq(asciiLower(x.At(i)), asciiLower(y.At(i))))
		}
		return r
	}
}

func asciiLower(b *smt.Term) *smt.Term {
	isUp := smt.And(smt.Ule(byteConst['A'], b), smt.Ule(b, byteConst['Z']))
	return smt.Ite(isUp, smt.Add(b, smt.Const(8, 32)), b)
}

func asciiUpper(b *smt.Term) *smt.Term {
	isLo := smt.And(smt.Ule(byteConst['a'], b), smt.Ule(b, byteConst['z']))
	return smt.Ite(isLo, smt.Sub(b, smt.Const(8, 32)), b)
}

func registerMisc(m map[string]modelFn) {
	m["math.Float64bits"] = func(fr *frame, a []Value) Value {
		t := term(a[0])
		if t.IsConst() {
			return smt.Const(64, t.Val)
		}
		if t.Op == smt.OFFromBits {
			return t.Args[0]
		}
		fr.e.unsupported("math.Float64bits of symbolic float")
		return nil
	}
	m["math.Float64frombits"] = func(fr *frame, a []Value) Value { return smt.FFromBits(term(a[0])) }
	m["math.Abs"] = func(fr *frame, a []Value) Value { return smt.FAbs(term(a[0])) }
	m["math.IsNaN"] = func(fr *frame, a []Value) Value { return smt.FIsNaN(term(a[0])) }
	m["math.IsInf"] = func(fr *frame, a []Value) Value {
		f := term(a[0])
		sign := term(a[1])
		pos := smt.And(smt.FIsInf(f), smt.FLt(smt.ConstF(0), f))
		neg := smt.And(smt.FIsInf(f), smt.FLt(f, smt.ConstF(0)))
		return smt.Ite(smt.Slt(intC(0), sign), pos, smt.Ite(smt.Slt(sign, intC(0)), neg, smt.FIsInf(f)))
	}
}
