package exec

import (
	"go/types"

	"golang.org/x/tools/go/ssa"
)

var typesString = types.Typ[types.String]

func typesPointer(t types.Type) types.Type { return types.NewPointer(t) }


type fsModel struct {
	crashAt int
	armed   bool
}

func (e *Engine) fs() *fsModel {
	if e.fsys == nil {
		e.fsys = &fsModel{crashAt: -1}
	}
	return e.fsys
}
func (f *fsModel) tempDir() string      { return "/tmp/verif" }
func (f *fsModel) armCrash(e *Engine)   {}
func registerFS(m map[string]modelFn)   {}
func registerTime(m map[string]modelFn) {}

func (e *Engine) setupOSGlobals(pkg *ssa.Package)   {}
func (e *Engine) setupTimeGlobals(pkg *ssa.Package) {}
