package exec

import (
	"go/types"
	"time"

	"golang.org/x/tools/go/ssa"
	"symgo/smt"
)

var typesString = types.Typ[types.String]

func typesPointer(t types.Type) types.Type { return types.NewPointer(t) }

func (e *Engine) timeZero() Value {
	tp := e.Prog.ImportedPackage("time")
	return zero(tp.Type("Time").Object().Type())
}

func registerTime(m map[string]modelFn) {
	m["time.Now"] = func(fr *frame, a []Value) Value {
		fr.e.Assumptions["time.Now: a fixed instant (the value of the clock is not part of any claim)"] = true
		return fr.e.timeZero()
	}
	m["(time.Time).UTC"] = func(fr *frame, a []Value) Value { return a[0] }
	m["(time.Time).Local"] = func(fr *frame, a []Value) Value { return a[0] }
	m["(time.Time).Format"] = func(fr *frame, a []Value) Value {
		layout := fr.e.concStr(a[1], "layout")
		return mkStr(time.Date(2000, 1, 1, 0, 0, 0, 0, time.UTC).Format(layout))
	}
	m["(time.Time).IsZero"] = func(fr *frame, a []Value) Value { return smt.True }
	m["(time.Time).Unix"] = func(fr *frame, a []Value) Value { return intC(946684800) }
	m["(time.Time).UnixNano"] = func(fr *frame, a []Value) Value { return intC(946684800000000000) }
	m["time.Parse"] = func(fr *frame, a []Value) Value {
		e := fr.e
		layout := e.concStr(a[0], "layout")
		v, ok := a[1].(Str).Concrete()
		if !ok {
			e.unsupported("time.Parse of a symbolic string")
		}
		if _, err := time.Parse(layout, v); err != nil {
			return Tuple{e.timeZero(), e.mkError(mkStr(err.Error()), nil)}
		}
		return Tuple{e.timeZero(), Iface{}}
	}
	// time.NewTimer: the timer has fired by the time anybody looks at it (the pause itself is not
	// modelled); a select between the timer and a cancelled context forks over both.
	m["time.NewTimer"] = func(fr *frame, a []Value) Value {
		e := fr.e
		tp := e.Prog.ImportedPackage("time")
		tt := tp.Type("Timer").Object().Type()
		sv := zero(tt).(Struct)
		ci := structFieldIndex(tt, "C")
		ct := tt.Underlying().(*types.Struct).Field(ci).Type()
		ch := e.makeChan(ct, 1)
		sv[ci] = ch
		var cell Value = sv
		// the timer fires only when no goroutine can make progress otherwise ("time passes when
		// nothing else happens"): an event such as a cancellation that is already visible wins
		e.pendingTimers = append(e.pendingTimers, ch)
		e.Assumptions["time.NewTimer: fires when every goroutine is blocked (durations are not modelled)"] = true
		return &cell
	}
	m["(*time.Timer).Stop"] = func(fr *frame, a []Value) Value { return smt.True }
	m["(*time.Timer).Reset"] = func(fr *frame, a []Value) Value { return smt.True }
	m["time.Since"] = func(fr *frame, a []Value) Value { return intC(0) }
	m["time.Sleep"] = func(fr *frame, a []Value) Value { fr.e.yield(); return nil }
}

func (e *Engine) setupTimeGlobals(pkg *ssa.Package) {
	// time.UTC / time.Local are pointers to Location values; interpreted code rarely needs them
	for _, n := range []string{"UTC", "Local"} {
		if g := pkg.Var(n); g != nil {
			e.okGlobal(g)
		}
	}
}
