package exec

import (
	"fmt"
	"go/types"
	"os"
	"runtime/debug"
	"sort"
	"strings"
	"time"

	"golang.org/x/tools/go/ssa"
	"symgo/smt"
)

// decision is one nondeterministic choice on a path. Every symbolic branch is recorded,
// also forced ones, so that a prefix can be replayed without solver queries.
type decision struct {
	Choice int    // chosen alternative
	N      int    // number of alternatives that were feasible/considered (1 = forced)
	Aux    uint64 // concretised value, if any
	Kind   string
	Where  string
}

// PendingDecision is the serialisable form of a decision (work handed between processes).
type PendingDecision struct {
	C int    `json:"c"`
	N int    `json:"n"`
	A uint64 `json:"a,omitempty"`
}

// Outcome of a path.
type Outcome struct {
	Kind   string // "ok", "assume", "panic", "deadlock", "unsupported", "bound", "crash", "engine"
	Detail string
}

type LabelStat struct {
	Class    string `json:"class,omitempty"`
	Checked  int    `json:"checked"`  // times reached
	Folded   int    `json:"folded"`   // condition folded to true without a query
	Unsat    int    `json:"unsat"`    // obligations discharged by the solver
	Sat      int    `json:"sat"`      // violations
	Unknown  int    `json:"unknown"`
	SolverMs int64  `json:"solver_ms"`
}

// Cex is a counterexample for an assertion.
type Cex struct {
	Label     string            `json:"label"`
	Entry     string            `json:"entry"`
	Inputs    []CexInput        `json:"inputs"`
	Decisions []int             `json:"decisions"`
	Events    []string          `json:"events,omitempty"`
	Where     string            `json:"where,omitempty"`
	Params    map[string]int    `json:"params,omitempty"`
	Notes     map[string]string `json:"notes,omitempty"`
	FS        []FSEntry         `json:"fs,omitempty"` // surviving file tree at the crash point
}

// FSEntry is one node of the file-system model at a crash point.
type FSEntry struct {
	Path   string `json:"path"`
	Kind   string `json:"kind"` // dir, file, link
	Mode   uint32 `json:"mode"`
	Data   []byte `json:"data,omitempty"`
	Target string `json:"target,omitempty"`
}

type CexInput struct {
	Key  string `json:"key"`  // stream key
	Idx  int    `json:"idx"`  // index in stream
	Kind string `json:"kind"` // bool,int,byte,...
	Val  uint64 `json:"val"`
	Name string `json:"name"`
}

type inputVar struct {
	t    *smt.Term
	key  string
	idx  int
	kind string
}

type undoRec struct {
	addr *Value
	old  Value
	f    func()
}

// Engine explores all paths of one harness entry.
type Engine struct {
	Prog    *ssa.Program
	Solver  *smt.Solver
	Params  map[string]int
	Verbose int

	globals  map[*ssa.Global]*Value
	models   map[string]modelFn
	fnModel  map[*ssa.Function]modelFn
	consts   map[*ssa.Const]Value
	poisoned map[*ssa.Package]string
	okGlobals map[*ssa.Global]bool
	inInit   bool
	initDone map[*ssa.Package]bool
	rtErrT   types.Type

	// per path
	trace     []decision
	replay    []decision
	pc        []*smt.Term
	solverPC  []*smt.Term
	work      [][]decision
	undo      []undoRec
	steps     int64
	nvars     map[string]int
	inputs    []inputVar
	events    []string
	outcome   Outcome
	aborting  bool
	gs        []*G
	cur       *G
	runq      []*G
	pathDone  chan struct{}
	schedMode int
	maxSteps  int64
	unwind    int
	side      map[interface{}]interface{} // per-path model side tables
	fsys      *fsModel
	hashReg   []*hashEntry
	jsonReg   []*jsonDoc
	pathAssertFailed bool
	mapOrderPerm bool
	ctxCancelAt int
	afterCrash Value

	// statistics
	Paths         int
	PathOutcomes  map[string]int
	Instrs        int64
	FeasQueries   int
	Labels        map[string]*LabelStat
	Reach         map[string]int
	Cexs          []*Cex
	Unsupported   map[string]int
	BoundHits     map[string]int
	FuncsEncoded  map[string]int
	funcCount     map[*ssa.Function]int
	Samples       []map[string]interface{}
	MaxPaths      int
	Deadline      time.Time
	Truncated     string
	EntryName     string
	maxCex        int
	UnknownFeas   int
	BFS           bool          // explore breadth-first (used with Budget to produce a wide frontier quickly)
	Budget        time.Duration // stop after this long and hand the unexplored prefixes back (Pending)
	Pending       [][]PendingDecision
	ResumeWork    [][]PendingDecision // start from these prefixes instead of the root
	FreshRetries  int // undecided queries re-run in fresh one-shot solver processes
	FreshDecided  int
	UnknownNotes  []string // where/what of the first undecided obligations (diagnostics)
	EngineErrors  []string
	Assumptions   map[string]bool
	MaxDepth      int
	ShardI, ShardN int
	sharedPhase   bool
	WantWitnesses int
	Witnesses     []*Cex
	pathReach     []string
	crashTree     func(model map[string]uint64) []FSEntry
	lastPanicWhere string
	pendingTimers  []*Chan
}

type pathAbort struct{}

type targetPanic struct{ v Value }

func NewEngine(prog *ssa.Program, solver *smt.Solver) *Engine {
	e := &Engine{
		Prog:         prog,
		Solver:       solver,
		Params:       map[string]int{},
		globals:      map[*ssa.Global]*Value{},
		fnModel:      map[*ssa.Function]modelFn{},
		consts:       map[*ssa.Const]Value{},
		poisoned:     map[*ssa.Package]string{},
		initDone:     map[*ssa.Package]bool{},
		PathOutcomes: map[string]int{},
		Labels:       map[string]*LabelStat{},
		Reach:        map[string]int{},
		Unsupported:  map[string]int{},
		BoundHits:    map[string]int{},
		FuncsEncoded: map[string]int{},
		funcCount:    map[*ssa.Function]int{},
		Assumptions:  map[string]bool{},
		MaxPaths:     1 << 30,
		maxCex:       3,
	}
	e.models = buildModels()
	for _, pkg := range prog.AllPackages() {
		for _, m := range pkg.Members {
			if g, ok := m.(*ssa.Global); ok {
				cell := zero(deref(g.Type()))
				e.globals[g] = &cell
			}
		}
	}
	if rp := prog.ImportedPackage("runtime"); rp != nil {
		if t := rp.Type("errorString"); t != nil {
			e.rtErrT = t.Object().Type()
		}
	}
	return e
}

// ---------------------------------------------------------------------------------------
// path condition and solver synchronisation

func (e *Engine) addPC(t *smt.Term) {
	if t.IsTrue() {
		return
	}
	e.pc = append(e.pc, t)
}

func (e *Engine) syncSolver() {
	n := 0
	for n < len(e.solverPC) && n < len(e.pc) && e.solverPC[n] == e.pc[n] {
		n++
	}
	if n < len(e.solverPC) {
		e.Solver.Pop(len(e.solverPC) - n)
		e.solverPC = e.solverPC[:n]
	}
	for ; n < len(e.pc); n++ {
		e.Solver.Push(e.pc[n])
		e.solverPC = append(e.solverPC, e.pc[n])
	}
}

// check asks whether PC ∧ t is satisfiable.
func (e *Engine) check(t *smt.Term, model []*smt.Term) (smt.Result, map[string]uint64) {
	if t != nil && t.IsFalse() {
		return smt.Unsat, nil
	}
	e.syncSolver()
	if t != nil && t.IsTrue() {
		t = nil
	}
	r, m := e.Solver.Check(t, model)
	if r == smt.Unknown && len(e.Solver.Errors) > 0 && strings.Contains(e.Solver.Errors[len(e.Solver.Errors)-1], "died") {
		// solver restarted: stack is empty now
		e.solverPC = nil
	}
	if r == smt.Unknown {
		if r2, m2, ok := e.checkFresh(t, model); ok {
			return r2, m2
		}
	}
	return r, m
}

// checkFresh re-decides an undecided query in fresh one-shot solver processes (same solver
// without push/pop, then the other installed solvers), each with six times the per-query
// timeout. Only a definite sat/unsat without any error line is accepted.
func (e *Engine) checkFresh(t *smt.Term, model []*smt.Term) (smt.Result, map[string]uint64, bool) {
	kinds := []string{e.Solver.Kind}
	for _, k := range []string{"z3", "z3-new", "cvc5"} {
		if k != e.Solver.Kind {
			kinds = append(kinds, k)
		}
	}
	for _, k := range kinds {
		s, err := smt.NewSolver(k, e.Solver.TimeoutMs*6)
		if err != nil {
			continue
		}
		e.FreshRetries++
		for _, c := range e.pc {
			s.AssertBase(c)
		}
		if t != nil {
			s.AssertBase(t)
		}
		r, m := s.Check(nil, model)
		nerr := len(s.Errors)
		s.Close()
		if r != smt.Unknown && nerr == 0 {
			e.FreshDecided++
			return r, m, true
		}
	}
	return smt.Unknown, nil, false
}

func (e *Engine) replaying() bool { return len(e.trace) < len(e.replay) }

// branch decides a symbolic condition, forking if both sides are feasible.
func (e *Engine) branch(cond *smt.Term) bool {
	if cond.IsConst() {
		return cond.IsTrue()
	}
	if e.inInit {
		e.abort("engine", "symbolic branch during init")
	}
	if e.replaying() {
		d := e.replay[len(e.trace)]
		e.trace = append(e.trace, d)
		if d.N > 1 {
			if d.Choice == 0 {
				e.addPC(cond)
			} else {
				e.addPC(smt.Not(cond))
			}
		}
		return d.Choice == 0
	}
	e.FeasQueries++
	rT, _ := e.check(cond, nil)
	if rT == smt.Unknown {
		e.UnknownFeas++
	}
	if rT == smt.Unsat {
		e.trace = append(e.trace, decision{Choice: 1, N: 1, Kind: "br"})
		return false
	}
	e.FeasQueries++
	rF, _ := e.check(smt.Not(cond), nil)
	if rF == smt.Unknown {
		e.UnknownFeas++
	}
	if rF == smt.Unsat {
		e.trace = append(e.trace, decision{Choice: 0, N: 1, Kind: "br"})
		return true
	}
	// both feasible: take true first, queue false
	alt := make([]decision, len(e.trace)+1)
	copy(alt, e.trace)
	where := ""
	if e.Verbose > 2 && e.cur != nil && e.cur.fr != nil && e.cur.fr.fn != nil {
		where = e.cur.fr.fn.Name()
	}
	alt[len(e.trace)] = decision{Choice: 1, N: 2, Kind: "br", Where: where}
	e.work = append(e.work, alt)
	e.trace = append(e.trace, decision{Choice: 0, N: 2, Kind: "br", Where: where})
	e.addPC(cond)
	return true
}

// choose picks one of n alternatives nondeterministically (all considered feasible).
func (e *Engine) choose(n int, kind string) int {
	if n <= 1 {
		return 0
	}
	if e.inInit {
		return 0
	}
	if e.replaying() {
		d := e.replay[len(e.trace)]
		e.trace = append(e.trace, d)
		return d.Choice
	}
	for c := n - 1; c >= 1; c-- {
		alt := make([]decision, len(e.trace)+1)
		copy(alt, e.trace)
		alt[len(e.trace)] = decision{Choice: c, N: n, Kind: kind}
		e.work = append(e.work, alt)
	}
	e.trace = append(e.trace, decision{Choice: 0, N: n, Kind: kind})
	return 0
}

// concretize returns a concrete value for t, forking over all feasible values.
func (e *Engine) concretize(t *smt.Term) uint64 {
	if t.IsConst() {
		return t.Val
	}
	if t.S.K != smt.KBV {
		if t.S.K == smt.KBool {
			if e.branch(t) {
				return 1
			}
			return 0
		}
		e.abort("unsupported", "concretize non-bitvector")
	}
	for iter := 0; ; iter++ {
		if iter > 300 {
			e.abort("bound", "concretize: too many values at "+e.whereAmI())
		}
		var v uint64
		if e.replaying() {
			d := e.replay[len(e.trace)]
			v = d.Aux
			e.trace = append(e.trace, d)
			eq := smt.Eq(t, smt.Const(t.S.W, v))
			if d.Choice == 0 {
				if d.N > 1 {
					e.addPC(eq)
				} else {
					e.addPC(eq) // forced: still record equality so later folding sees it
				}
				return v
			}
			e.addPC(smt.Not(eq))
			continue
		}
		e.FeasQueries++
		r, m := e.check(nil, []*smt.Term{t})
		if r != smt.Sat {
			if r == smt.Unknown {
				e.UnknownFeas++
				e.abort("unknown", "concretize: solver unknown")
			}
			e.abort("assume", "concretize: infeasible path")
		}
		v = m[t.Ref()]
		eq := smt.Eq(t, smt.Const(t.S.W, v))
		e.FeasQueries++
		rN, _ := e.check(smt.Not(eq), nil)
		if rN == smt.Unsat {
			e.trace = append(e.trace, decision{Choice: 0, N: 1, Aux: v, Kind: "cz"})
			e.addPC(eq)
			return v
		}
		alt := make([]decision, len(e.trace)+1)
		copy(alt, e.trace)
		alt[len(e.trace)] = decision{Choice: 1, N: 2, Aux: v, Kind: "cz"}
		e.work = append(e.work, alt)
		e.trace = append(e.trace, decision{Choice: 0, N: 2, Aux: v, Kind: "cz"})
		e.addPC(eq)
		return v
	}
}

func (e *Engine) concInt(v Value) int64 {
	t := v.(*smt.Term)
	if t.IsConst() {
		return t.SInt()
	}
	u := e.concretize(t)
	return smt.Const(t.S.W, u).SInt()
}

// abort ends the current path with the given outcome.
func (e *Engine) abort(kind, detail string) {
	if !e.aborting {
		e.outcome = Outcome{kind, detail}
		e.aborting = true
	}
	panic(pathAbort{})
}

func (e *Engine) unsupported(what string) {
	if !e.inInit {
		e.Unsupported[what]++
	}
	e.abort("unsupported", what)
}

// fresh creates a fresh symbolic variable for this path. Names are deterministic in
// execution order so that replayed prefixes produce identical terms.
func (e *Engine) fresh(prefix string, s smt.Sort) *smt.Term {
	n := e.nvars[prefix]
	e.nvars[prefix] = n + 1
	tag := "b"
	switch s.K {
	case smt.KBV:
		tag = fmt.Sprintf("w%d", s.W)
	case smt.KFP:
		tag = "f"
	}
	return smt.Var(fmt.Sprintf("%s!%d%s", prefix, n, tag), s)
}

// input creates a fresh symbolic harness input recorded for counterexamples.
func (e *Engine) input(key, kind string, s smt.Sort) *smt.Term {
	k := "in_" + sanitize(key)
	n := e.nvars[k]
	t := e.fresh(k, s)
	e.inputs = append(e.inputs, inputVar{t, key, n, kind})
	return t
}

func sanitize(s string) string {
	var sb strings.Builder
	for _, c := range s {
		if c >= 'a' && c <= 'z' || c >= 'A' && c <= 'Z' || c >= '0' && c <= '9' || c == '_' {
			sb.WriteRune(c)
		} else {
			sb.WriteByte('_')
		}
	}
	return sb.String()
}

// ---------------------------------------------------------------------------------------
// heap writes with undo log

func (e *Engine) store(addr *Value, v Value) {
	if addr == nil {
		e.rtPanic("invalid memory address or nil pointer dereference")
	}
	// A struct or array is stored in place, element by element: pointers to its fields and
	// elements (FieldAddr/IndexAddr results taken earlier) must keep denoting the stored object.
	switch nv := v.(type) {
	case Struct:
		if ov, ok := (*addr).(Struct); ok && len(ov) == len(nv) {
			for i := range nv {
				e.store(&ov[i], nv[i])
			}
			return
		}
	case Array:
		if ov, ok := (*addr).(Array); ok && len(ov) == len(nv) && len(nv) > 0 {
			switch nv[0].(type) {
			case Struct, Array:
				for i := range nv {
					e.store(&ov[i], nv[i])
				}
			default:
				if !e.inInit {
					saved := append([]Value(nil), ov...)
					e.undo = append(e.undo, undoRec{f: func() { copy(ov, saved) }})
				}
				copy(ov, nv)
			}
			return
		}
	}
	if !e.inInit {
		e.undo = append(e.undo, undoRec{addr: addr, old: *addr})
	}
	*addr = copyVal(v)
}

func (e *Engine) load(addr *Value) Value {
	if addr == nil {
		e.rtPanic("invalid memory address or nil pointer dereference")
	}
	return copyVal(*addr)
}

func (e *Engine) logUndo(f func()) {
	if !e.inInit {
		e.undo = append(e.undo, undoRec{f: f})
	}
}

func (e *Engine) rollback() {
	for i := len(e.undo) - 1; i >= 0; i-- {
		u := e.undo[i]
		if u.f != nil {
			u.f()
		} else {
			*u.addr = u.old
		}
	}
	e.undo = e.undo[:0]
}

// rtPanic raises a Go run-time panic in the target program.
func (e *Engine) rtPanic(msg string) {
	e.lastPanicWhere = e.whereAmI()
	if e.rtErrT != nil {
		panic(targetPanic{Iface{T: e.rtErrT, V: mkStr(msg)}})
	}
	panic(targetPanic{Iface{T: types.Typ[types.String], V: mkStr("runtime error: " + msg)}})
}

// ---------------------------------------------------------------------------------------
// exploration driver

type RunConfig struct {
	MaxSteps int64
	Unwind   int
	MaxPaths int
	Timeout  time.Duration
}

// Init runs package initialisers once (tolerantly).
func (e *Engine) Init(pkg *ssa.Package) {
	e.inInit = true
	e.nvars = map[string]int{}
	e.side = map[interface{}]interface{}{}
	defer func() { e.inInit = false }()
	g := &G{id: 0, wake: make(chan struct{}, 1)}
	e.cur = g
	e.gs = []*G{g}
	func() {
		defer func() {
			if r := recover(); r != nil {
				if _, ok := r.(pathAbort); ok {
					fmt.Fprintf(os.Stderr, "init aborted: %v\n", e.outcome)
					e.aborting = false
					return
				}
				if tp, ok := r.(targetPanic); ok {
					fmt.Fprintf(os.Stderr, "init panicked: %s\n", toStringDebug(tp.v))
					return
				}
				if eb, ok := r.(engineBug); ok {
					fmt.Fprintf(os.Stderr, "ENGINE BUG during init: %s\n%s\n", eb.msg, trimStack([]byte(eb.stack)))
					os.Exit(4)
				}
				panic(r)
			}
		}()
		e.callFn(nil, pkg.Func("init"), nil)
	}()
	e.gs = nil
	e.cur = nil
}

// Explore runs entry over all paths.
func (e *Engine) Explore(entry *ssa.Function, cfg RunConfig) {
	e.EntryName = entry.Name()
	e.maxSteps = cfg.MaxSteps
	if e.maxSteps == 0 {
		e.maxSteps = 20_000_000
	}
	e.unwind = cfg.Unwind
	if cfg.MaxPaths > 0 {
		e.MaxPaths = cfg.MaxPaths
	}
	if cfg.Timeout > 0 {
		e.Deadline = time.Now().Add(cfg.Timeout)
	}
	defer func() {
		for fn, n := range e.funcCount {
			e.FuncsEncoded[fn.String()] += n
		}
	}()
	e.work = [][]decision{nil}
	start := time.Now()
	if e.ResumeWork != nil {
		e.work = nil
		for i := len(e.ResumeWork) - 1; i >= 0; i-- {
			var pre []decision
			for _, d := range e.ResumeWork[i] {
				pre = append(pre, decision{Choice: d.C, N: d.N, Aux: d.A})
			}
			e.work = append(e.work, pre)
		}
	} else if e.ShardN > 1 {
		// breadth-first expansion until the frontier is wide enough, then keep our share.
		// (paths completed during the expansion are explored by every shard: counted once by shard 0)
		for len(e.work) > 0 && len(e.work) < e.ShardN*48 && e.Paths < e.ShardN*400 {
			prefix := e.work[0]
			e.work = e.work[1:]
			e.sharedPhase = e.ShardI != 0
			e.runPath(entry, prefix)
		}
		e.sharedPhase = false
		if e.ShardI != 0 {
			// the expansion phase is run identically by every shard; only shard 0 reports it
			e.Paths, e.Instrs, e.FeasQueries = 0, 0, 0
			e.PathOutcomes = map[string]int{}
			e.Labels = map[string]*LabelStat{}
			e.Reach = map[string]int{}
			e.Cexs = nil
			e.Witnesses = nil
			e.Samples = nil
			e.Unsupported = map[string]int{}
			e.BoundHits = map[string]int{}
		}
		var mine [][]decision
		for i, w := range e.work {
			if i%e.ShardN == e.ShardI {
				mine = append(mine, w)
			}
		}
		// reverse so that DFS pops in frontier order
		for i, j := 0, len(mine)-1; i < j; i, j = i+1, j-1 {
			mine[i], mine[j] = mine[j], mine[i]
		}
		e.work = mine
	}
	for len(e.work) > 0 {
		if e.Paths >= e.MaxPaths {
			e.Truncated = fmt.Sprintf("max paths %d reached with %d prefixes pending", e.MaxPaths, len(e.work))
			break
		}
		if !e.Deadline.IsZero() && time.Now().After(e.Deadline) {
			e.Truncated = fmt.Sprintf("time limit reached with %d prefixes pending", len(e.work))
			break
		}
		if e.Budget > 0 && time.Since(start) > e.Budget {
			// hand the unexplored prefixes back, in the order this process would have explored them
			for i := len(e.work) - 1; i >= 0; i-- {
				pd := make([]PendingDecision, len(e.work[i]))
				for j, d := range e.work[i] {
					pd[j] = PendingDecision{C: d.Choice, N: d.N, A: d.Aux}
				}
				e.Pending = append(e.Pending, pd)
			}
			e.work = nil
			break
		}
		var prefix []decision
		if e.BFS {
			prefix = e.work[0]
			e.work = e.work[1:]
		} else {
			prefix = e.work[len(e.work)-1]
			e.work = e.work[:len(e.work)-1]
		}
		e.runPath(entry, prefix)
	}
}

func (e *Engine) resetPath() {
	e.trace = e.trace[:0]
	e.pc = e.pc[:0]
	e.steps = 0
	e.nvars = map[string]int{}
	e.inputs = e.inputs[:0]
	e.events = e.events[:0]
	e.outcome = Outcome{Kind: "ok"}
	e.aborting = false
	e.gs = nil
	e.runq = nil
	e.cur = nil
	e.side = map[interface{}]interface{}{}
	e.fsys = nil
	e.hashReg = nil
	e.jsonReg = nil
	e.schedMode = SchedEager
	e.pathAssertFailed = false
	e.mapOrderPerm = false
	e.afterCrash = nil
	e.crashTree = nil
	e.pendingTimers = nil
	e.pathReach = e.pathReach[:0]
}

func (e *Engine) runPath(entry *ssa.Function, prefix []decision) {
	e.resetPath()
	e.replay = prefix
	e.pathDone = make(chan struct{}, 1)
	g0 := e.newG()
	e.cur = g0
	go e.gMain(g0, func() {
		e.callFn(nil, entry, nil)
	})
	<-e.pathDone
	// kill remaining goroutines
	e.aborting = true
	for _, g := range e.gs {
		if !g.finished {
			g.wake <- struct{}{}
			<-g.exited
		}
	}
	if e.outcome.Kind == "crash" && e.afterCrash != nil {
		e.runAfterCrash()
	}
	e.Instrs += e.steps
	e.Paths++
	e.PathOutcomes[e.outcome.Kind]++
	if len(e.trace) > e.MaxDepth {
		e.MaxDepth = len(e.trace)
	}
	if e.outcome.Kind == "unsupported" || e.outcome.Kind == "engine" || e.outcome.Kind == "bound" || e.outcome.Kind == "unknown" {
		key := e.outcome.Kind + ": " + e.outcome.Detail
		if e.outcome.Kind == "bound" {
			e.BoundHits[e.outcome.Detail]++
		}
		if e.outcome.Kind == "engine" && len(e.EngineErrors) < 5 {
			e.EngineErrors = append(e.EngineErrors, e.outcome.Detail)
		}
		if e.Verbose > 0 {
			fmt.Fprintf(os.Stderr, "path %d: %s\n", e.Paths, key)
		}
	} else if e.Verbose > 1 {
		fmt.Fprintf(os.Stderr, "path %d: %s %s (decisions %d, steps %d)\n", e.Paths, e.outcome.Kind, e.outcome.Detail, len(e.trace), e.steps)
		if e.Verbose > 2 {
			var sb strings.Builder
			for _, d := range e.trace {
				if d.N > 1 {
					fmt.Fprintf(&sb, "%s%d/%d@%s ", d.Kind, d.Choice, d.N, d.Where)
				}
			}
			fmt.Fprintf(os.Stderr, "   %s\n", sb.String())
		}
	}
	if len(e.Samples) < 6 && e.outcome.Kind == "ok" {
		e.Samples = append(e.Samples, map[string]interface{}{
			"entry": e.EntryName, "path": e.Paths, "decisions": len(e.trace), "pc_terms": len(e.pc),
			"inputs": len(e.inputs), "steps": e.steps, "outcome": e.outcome.Kind, "events": append([]string(nil), e.events...),
		})
	}
	if e.outcome.Kind == "ok" && !e.pathAssertFailed && len(e.Witnesses) < e.WantWitnesses && len(e.inputs) > 0 &&
		(e.Paths <= 2 || e.Paths%7 == 0) {
		if r, m := e.check(nil, e.inputTerms()); r == smt.Sat {
			w := &Cex{Label: "", Entry: e.EntryName, Params: e.Params}
			for _, in := range e.inputs {
				w.Inputs = append(w.Inputs, CexInput{Key: in.key, Idx: in.idx, Kind: in.kind, Val: m[in.t.Name], Name: in.t.Name})
			}
			w.Events = append([]string(nil), e.events...)
			w.Notes = map[string]string{"reach": strings.Join(e.pathReach, ",")}
			e.Witnesses = append(e.Witnesses, w)
		}
	}
	e.rollback()
}

// runAfterCrash runs the registered recovery function as a fresh "process" on the
// surviving file-system model state.
func (e *Engine) runAfterCrash() {
	fn := e.afterCrash
	e.afterCrash = nil
	if e.fsys != nil {
		e.crashTree = e.fsys.snapshot()
	}
	e.aborting = false
	e.outcome = Outcome{Kind: "ok", Detail: "after-crash"}
	e.gs = nil
	e.runq = nil
	if e.fsys != nil {
		e.fsys.crashAt = -1
		e.fsys.armed = false
	}
	e.pathDone = make(chan struct{}, 1)
	g0 := e.newG()
	e.cur = g0
	go e.gMain(g0, func() {
		e.callValue(nil, fn, nil)
	})
	<-e.pathDone
	e.aborting = true
	for _, g := range e.gs {
		if !g.finished {
			g.wake <- struct{}{}
			<-g.exited
		}
	}
}

// gMain is the top-level of every interpreted goroutine.
func (e *Engine) gMain(g *G, body func()) {
	defer func() {
		r := recover()
		g.finished = true
		if r != nil {
			switch p := r.(type) {
			case pathAbort:
			case targetPanic:
				if !e.aborting {
					e.outcome = Outcome{"panic", toStringDebug(p.v)}
					e.aborting = true
					e.onUncaughtPanic(p.v)
				}
			default:
				if !e.aborting {
					if eb, ok := r.(engineBug); ok {
						e.outcome = Outcome{"engine", eb.msg + " | " + trimStack([]byte(eb.stack))}
					} else {
						e.outcome = Outcome{"engine", fmt.Sprintf("%v\n%s", r, trimStack(debug.Stack()))}
					}
					e.aborting = true
				}
			}
		}
		close(g.exited)
		if e.aborting || g.id == 0 {
			// path over: the driver kills the others
			if !g.signalled {
				select {
				case e.pathDone <- struct{}{}:
				default:
				}
			}
			return
		}
		// normal goroutine exit: hand the baton on
		e.goexit(g)
	}()
	body()
}

func trimStack(b []byte) string {
	lines := strings.Split(string(b), "\n")
	var out []string
	for _, l := range lines {
		if strings.Contains(l, "symgo/") && strings.Contains(l, ".go:") {
			out = append(out, strings.TrimSpace(l))
		}
		if len(out) > 12 {
			break
		}
	}
	return strings.Join(out, " | ")
}

// onUncaughtPanic records an uncaught target panic as a violation of the implicit
// "<entry>.no-panic" assertion.
func (e *Engine) onUncaughtPanic(v Value) {
	label := e.EntryName + ".no-panic"
	st := e.label(label)
	st.Checked++
	// the path is feasible by construction (every branch was checked); get a model.
	r, m := e.check(nil, e.inputTerms())
	if r == smt.Sat {
		st.Sat++
		e.recordCex(label, m, "uncaught panic: "+toStringDebug(v)+" at "+e.lastPanicWhere)
	} else if r == smt.Unknown {
		st.Unknown++
	}
}

func (e *Engine) inputTerms() []*smt.Term {
	ts := make([]*smt.Term, len(e.inputs))
	for i, in := range e.inputs {
		ts[i] = in.t
	}
	return ts
}

func (e *Engine) label(name string) *LabelStat {
	st := e.Labels[name]
	if st == nil {
		st = &LabelStat{}
		e.Labels[name] = st
	}
	return st
}

func (e *Engine) recordCex(label string, m map[string]uint64, where string) {
	n := 0
	for _, c := range e.Cexs {
		if c.Label == label {
			n++
		}
	}
	if n >= e.maxCex {
		return
	}
	c := &Cex{Label: label, Entry: e.EntryName, Where: where, Params: e.Params}
	for _, in := range e.inputs {
		c.Inputs = append(c.Inputs, CexInput{Key: in.key, Idx: in.idx, Kind: in.kind, Val: m[in.t.Name], Name: in.t.Name})
	}
	for _, d := range e.trace {
		c.Decisions = append(c.Decisions, d.Choice)
	}
	c.Events = append([]string(nil), e.events...)
	if e.crashTree != nil {
		c.FS = e.crashTree(m)
	}
	e.Cexs = append(e.Cexs, c)
}

// assert checks an obligation: PC ∧ ¬cond must be unsatisfiable.
func (e *Engine) assert(cond *smt.Term, label string) {
	st := e.label(label)
	st.Checked++
	if cond.IsTrue() {
		st.Folded++
		return
	}
	t0 := time.Now()
	r, m := e.check(smt.Not(cond), e.inputTerms())
	st.SolverMs += time.Since(t0).Milliseconds()
	switch r {
	case smt.Unsat:
		st.Unsat++
	case smt.Sat:
		st.Sat++
		e.pathAssertFailed = true
		e.recordCex(label, m, e.whereAmI())
	default:
		st.Unknown++
		if len(e.UnknownNotes) < 5 {
			txt := smt.Not(cond).String()
			if len(txt) > 1500 {
				txt = txt[:1500] + "…"
			}
			pc := ""
			for _, t := range e.pc {
				if len(pc) < 3000 {
					pc += " ∧ " + t.String()
				}
			}
			e.UnknownNotes = append(e.UnknownNotes, fmt.Sprintf("%s at %s events=%v query=%s pc=%s", label, e.whereAmI(), e.events, txt, pc))
		}
	}
	// continue under the assumption that the assertion held
	if !cond.IsFalse() {
		if r == smt.Sat {
			rr, _ := e.check(cond, nil)
			if rr == smt.Unsat {
				e.abort("assume", "assertion always fails here")
			}
		}
		e.addPC(cond)
	} else {
		e.abort("assume", "assertion always fails here")
	}
}

func (e *Engine) assume(cond *smt.Term) {
	if cond.IsTrue() {
		return
	}
	if cond.IsFalse() {
		e.abort("assume", "")
	}
	if e.replaying() {
		// assumptions are not decisions, but feasibility was checked when first seen
		e.addPC(cond)
		return
	}
	e.addPC(cond)
	e.FeasQueries++
	r, _ := e.check(nil, nil)
	if r == smt.Unsat {
		e.abort("assume", "")
	}
	if r == smt.Unknown {
		e.UnknownFeas++
	}
}

func (e *Engine) whereAmI() string {
	if e.cur == nil || e.cur.fr == nil {
		return ""
	}
	var parts []string
	for fr := e.cur.fr; fr != nil && len(parts) < 6; fr = fr.caller {
		parts = append(parts, fr.fn.String())
	}
	return strings.Join(parts, " < ")
}

// SortedKeys helper for deterministic output.
func SortedKeys(m map[string]int) []string {
	ks := make([]string, 0, len(m))
	for k := range m {
		ks = append(ks, k)
	}
	sort.Strings(ks)
	return ks
}
