package exec

import (
	"fmt"
	"go/token"
	"go/types"
	"unicode/utf8"

	"golang.org/x/tools/go/ssa"
	"symgo/smt"
)

// shiftAmount converts y (of type ty) to the width of x for a shift, saturating.
func shiftAmount(y *smt.Term, w int) *smt.Term {
	if y.S.W == w {
		return y
	}
	if y.S.W < w {
		return smt.Zext(y, w)
	}
	// wider shift count: saturate to w (any value >= w behaves the same)
	if y.IsConst() {
		if y.Val >= uint64(w) {
			return smt.Const(w, uint64(w))
		}
		return smt.Const(w, y.Val)
	}
	big := smt.Not(smt.Ult(y, smt.Const(y.S.W, uint64(w))))
	return smt.Ite(big, smt.Const(w, uint64(w)), smt.Extract(y, w-1, 0))
}

func (e *Engine) binop(op token.Token, t types.Type, x, y Value, ty types.Type) Value {
	switch xv := x.(type) {
	case *smt.Term:
		yv, ok := y.(*smt.Term)
		if !ok {
			panic(fmt.Sprintf("binop %s: mixed operands %T %T", op, x, y))
		}
		return e.binopTerm(op, t, xv, yv, ty)
	case Str:
		yv := y.(Str)
		switch op {
		case token.ADD:
			return strConcat(xv, yv)
		case token.EQL:
			return strEq(xv, yv)
		case token.NEQ:
			return smt.Not(strEq(xv, yv))
		case token.LSS:
			return strLess(xv, yv)
		case token.LEQ:
			return smt.Not(strLess(yv, xv))
		case token.GTR:
			return strLess(yv, xv)
		case token.GEQ:
			return smt.Not(strLess(xv, yv))
		}
	}
	switch op {
	case token.EQL:
		return e.equals(t, x, y)
	case token.NEQ:
		return smt.Not(e.equals(t, x, y))
	}
	panic(fmt.Sprintf("invalid binary op: %T %s %T", x, op, y))
}

func (e *Engine) binopTerm(op token.Token, t types.Type, x, y *smt.Term, ty types.Type) Value {
	if x.S.K == smt.KBool {
		switch op {
		case token.EQL:
			return smt.Eq(x, y)
		case token.NEQ:
			return smt.Not(smt.Eq(x, y))
		case token.AND, token.LAND:
			return smt.And(x, y)
		case token.OR, token.LOR:
			return smt.Or(x, y)
		}
		panic("bool binop " + op.String())
	}
	if x.S.K == smt.KFP {
		switch op {
		case token.ADD:
			return smt.FAdd(x, y)
		case token.SUB:
			return smt.FSub(x, y)
		case token.MUL:
			return smt.FMul(x, y)
		case token.QUO:
			return smt.FDiv(x, y)
		case token.EQL:
			return smt.FEq(x, y)
		case token.NEQ:
			return smt.Not(smt.FEq(x, y))
		case token.LSS:
			return smt.FLt(x, y)
		case token.LEQ:
			return smt.FLe(x, y)
		case token.GTR:
			return smt.FLt(y, x)
		case token.GEQ:
			return smt.FLe(y, x)
		}
		panic("float binop " + op.String())
	}
	w, signed, ok := intInfo(t)
	if !ok {
		w = x.S.W
	}
	switch op {
	case token.ADD:
		return smt.Add(x, y)
	case token.SUB:
		return smt.Sub(x, y)
	case token.MUL:
		return smt.Mul(x, y)
	case token.QUO, token.REM:
		if e.branch(smt.Eq(y, smt.Const(w, 0))) {
			e.rtPanic("integer divide by zero")
		}
		if op == token.QUO {
			if signed {
				return smt.SDiv(x, y)
			}
			return smt.UDiv(x, y)
		}
		if signed {
			return smt.SRem(x, y)
		}
		return smt.URem(x, y)
	case token.AND:
		return smt.BvAnd(x, y)
	case token.OR:
		return smt.BvOr(x, y)
	case token.XOR:
		return smt.BvXor(x, y)
	case token.AND_NOT:
		return smt.BvAnd(x, smt.BvNot(y))
	case token.SHL, token.SHR:
		if _, ysigned, _ := intInfo(ty); ysigned {
			if e.branch(smt.Slt(y, smt.Const(y.S.W, 0))) {
				e.rtPanic("negative shift amount")
			}
		}
		sh := shiftAmount(y, w)
		if op == token.SHL {
			return smt.Shl(x, sh)
		}
		if signed {
			return smt.Ashr(x, sh)
		}
		return smt.Lshr(x, sh)
	case token.EQL:
		return smt.Eq(x, y)
	case token.NEQ:
		return smt.Not(smt.Eq(x, y))
	case token.LSS:
		if signed {
			return smt.Slt(x, y)
		}
		return smt.Ult(x, y)
	case token.LEQ:
		if signed {
			return smt.Sle(x, y)
		}
		return smt.Ule(x, y)
	case token.GTR:
		if signed {
			return smt.Slt(y, x)
		}
		return smt.Ult(y, x)
	case token.GEQ:
		if signed {
			return smt.Sle(y, x)
		}
		return smt.Ule(y, x)
	}
	panic("int binop " + op.String())
}

// equals returns the Bool term x == y for comparable values of static type t.
func (e *Engine) equals(t types.Type, x, y Value) *smt.Term {
	switch x := x.(type) {
	case *smt.Term:
		yt := y.(*smt.Term)
		if x.S.K == smt.KFP {
			return smt.FEq(x, yt)
		}
		return smt.Eq(x, yt)
	case Str:
		return strEq(x, y.(Str))
	case *Value:
		yp, _ := y.(*Value)
		return smt.B(x == yp)
	case Iface:
		yi := y.(Iface)
		if x.T == nil || yi.T == nil {
			return smt.B(x.T == nil && yi.T == nil)
		}
		if !types.Identical(x.T, yi.T) {
			return smt.False
		}
		if !types.Comparable(x.T) {
			e.rtPanic("comparing uncomparable type " + x.T.String())
		}
		return e.equals(x.T, x.V, yi.V)
	case Struct:
		ys := y.(Struct)
		st, _ := t.Underlying().(*types.Struct)
		r := smt.True
		for i := range x {
			var ft types.Type
			if st != nil {
				if st.Field(i).Name() == "_" {
					continue
				}
				ft = st.Field(i).Type()
			}
			r = smt.And(r, e.equals(ft, x[i], ys[i]))
			if r.IsFalse() {
				return r
			}
		}
		return r
	case Array:
		ya := y.(Array)
		var et types.Type
		if at, ok := t.Underlying().(*types.Array); ok {
			et = at.Elem()
		}
		r := smt.True
		for i := range x {
			r = smt.And(r, e.equals(et, x[i], ya[i]))
			if r.IsFalse() {
				return r
			}
		}
		return r
	case *Map:
		ym, _ := y.(*Map)
		return smt.B(x == ym)
	case *Chan:
		yc, _ := y.(*Chan)
		return smt.B(x == yc)
	case []Value:
		// only comparison with nil is legal
		if y == nil {
			return smt.B(x == nil)
		}
		ys := y.([]Value)
		if ys == nil {
			return smt.B(x == nil)
		}
		if x == nil {
			return smt.False
		}
		panic("slice comparison")
	case nil:
		switch y := y.(type) {
		case nil:
			return smt.True
		case []Value:
			return smt.B(y == nil)
		case *Value:
			return smt.B(y == nil)
		case *Map:
			return smt.B(y == nil)
		case *Chan:
			return smt.B(y == nil)
		case Iface:
			return smt.B(y.T == nil)
		default:
			return smt.B(isNilFunc(y))
		}
	case UPtr:
		yu, _ := y.(UPtr)
		return smt.B(x.P == yu.P)
	case *ssa.Function, *Closure, *Native, *ssa.Builtin:
		// func == nil
		if isNilFunc(y) {
			return smt.B(isNilFunc(x))
		}
		if isNilFunc(x) {
			return smt.False
		}
		panic("func comparison")
	}
	panic(fmt.Sprintf("equals: unexpected %T vs %T", x, y))
}

func (e *Engine) unop(fr *frame, instr *ssa.UnOp, x Value) Value {
	switch instr.Op {
	case token.ARROW:
		c, _ := x.(*Chan)
		v, ok := e.chanRecv(c)
		if instr.CommaOk {
			return Tuple{v, smt.B(ok)}
		}
		return v
	case token.SUB:
		t := x.(*smt.Term)
		if t.S.K == smt.KFP {
			return smt.FNeg(t)
		}
		return smt.Neg(t)
	case token.MUL:
		if sp, ok := x.(*SymPtr); ok {
			return e.symLoad(sp)
		}
		p, _ := x.(*Value)
		return e.load(p)
	case token.NOT:
		return smt.Not(x.(*smt.Term))
	case token.XOR:
		return smt.BvNot(x.(*smt.Term))
	}
	panic(fmt.Sprintf("invalid unary op %s %T", instr.Op, x))
}

// conv implements conversions between basic types, strings and byte/rune slices.
func (e *Engine) conv(tDst, tSrc types.Type, x Value) Value {
	ud := tDst.Underlying()
	us := tSrc.Underlying()
	switch us := us.(type) {
	case *types.Pointer:
		if ub, ok := ud.(*types.Basic); ok && ub.Kind() == types.UnsafePointer {
			return UPtr{P: x}
		}
		return x
	case *types.Slice:
		// []byte/[]rune -> string
		if isString(ud) {
			sl := x.([]Value)
			if eb, ok := us.Elem().Underlying().(*types.Basic); ok && (eb.Kind() == types.Uint8) {
				bs := make([]*smt.Term, len(sl))
				for i := range sl {
					bs[i] = sl[i].(*smt.Term)
				}
				return mkStrB(bs)
			}
			// []rune
			var rs []rune
			for _, r := range sl {
				rs = append(rs, rune(e.concInt(r)))
			}
			return mkStr(string(rs))
		}
		return x
	case *types.Basic:
		if us.Kind() == types.UnsafePointer {
			if up, ok := x.(UPtr); ok {
				if _, isPtr := ud.(*types.Pointer); isPtr {
					if up.P == nil {
						return (*Value)(nil)
					}
					return up.P
				}
				return x
			}
			return x
		}
		if isString(us) {
			s := x.(Str)
			switch ud := ud.(type) {
			case *types.Slice:
				if eb, ok := ud.Elem().Underlying().(*types.Basic); ok && eb.Kind() == types.Uint8 {
					r := make([]Value, s.Len())
					for i := range r {
						r[i] = s.At(i)
					}
					return r
				}
				// []rune
				cs, ok := s.Concrete()
				if !ok {
					e.unsupported("[]rune(symbolic string)")
				}
				var r []Value
				for _, c := range cs {
					r = append(r, smt.ConstS(32, int64(c)))
				}
				return r
			case *types.Basic:
				if isString(ud) {
					return x
				}
			}
			panic(fmt.Sprintf("conv string -> %s", tDst))
		}
		xt, ok := x.(*smt.Term)
		if !ok {
			panic(fmt.Sprintf("conv: %T %s -> %s", x, tSrc, tDst))
		}
		if db, ok := ud.(*types.Basic); ok {
			switch {
			case db.Kind() == types.UnsafePointer:
				return UPtr{P: x}
			case db.Info()&types.IsString != 0:
				// integer -> string (rune)
				c := e.concInt(xt)
				return mkStr(string(rune(c)))
			case db.Info()&types.IsBoolean != 0:
				return x
			}
			sw, ssigned, sint := intInfo(us)
			dw, dsigned, dint := intInfo(db)
			switch {
			case sint && dint:
				_ = dsigned
				if dw == sw {
					return xt
				}
				if dw < sw {
					return smt.Extract(xt, dw-1, 0)
				}
				if ssigned {
					return smt.Sext(xt, dw)
				}
				return smt.Zext(xt, dw)
			case sint && isFloat(db):
				var f *smt.Term
				if ssigned {
					f = smt.FFromS(xt)
				} else {
					f = smt.FFromU(xt)
				}
				if db.Kind() == types.Float32 {
					e.unsupported("float32")
				}
				return f
			case isFloat(us) && dint:
				if xt.IsConst() {
					f := xt.Float()
					if dsigned {
						return smt.ConstS(dw, int64(f))
					}
					return smt.Const(dw, uint64(f))
				}
				return e.floatToInt(xt, dw, dsigned)
			case isFloat(us) && isFloat(db):
				if db.Kind() == types.Float32 || us.Kind() == types.Float32 {
					e.unsupported("float32")
				}
				return xt
			}
		}
	case *types.Signature, *types.Map, *types.Chan, *types.Struct, *types.Array, *types.Interface:
		return x
	}
	panic(fmt.Sprintf("conv: unsupported %s -> %s (%T)", tSrc, tDst, x))
}

// floatToInt models the amd64 behaviour of float64 -> integer conversion: values that do
// not fit (and NaN) give 0x8000000000000000 for 64-bit signed results.
func (e *Engine) floatToInt(x *smt.Term, w int, signed bool) *smt.Term {
	e.Assumptions["float->int conversion out of range modelled as on amd64 (CVTTSD2SQ: 0x8000000000000000)"] = true
	if signed && w == 64 {
		lo := smt.ConstF(-9223372036854775808.0)
		hi := smt.ConstF(9223372036854775808.0)
		inRange := smt.AndN(smt.FLe(lo, x), smt.FLt(x, hi), smt.Not(smt.FIsNaN(x)))
		return smt.Ite(inRange, smt.FToS(x, 64), smt.Const(64, 1<<63))
	}
	if signed {
		// convert via int64 then truncate (as the compiler does)
		v := e.floatToInt(x, 64, true)
		return smt.Extract(v, w-1, 0)
	}
	// unsigned: Go on amd64 for uint64: if x < 2^63 use signed conversion else (x-2^63) ^ 1<<63
	if w == 64 {
		two63 := smt.ConstF(9223372036854775808.0)
		small := smt.FLt(x, two63)
		a := e.floatToInt(x, 64, true)
		b := smt.BvXor(e.floatToInt(smt.FSub(x, two63), 64, true), smt.Const(64, 1<<63))
		return smt.Ite(small, a, b)
	}
	v := e.floatToInt(x, 64, true)
	return smt.Extract(v, w-1, 0)
}

// ---------------------------------------------------------------------------------------
// builtins

func (e *Engine) callBuiltin(caller *frame, fn *ssa.Builtin, args []Value) Value {
	switch fn.Name() {
	case "append":
		if len(args) == 1 {
			return args[0]
		}
		dst, _ := args[0].([]Value)
		var src []Value
		switch s := args[1].(type) {
		case Str:
			src = make([]Value, s.Len())
			for i := range src {
				src[i] = s.At(i)
			}
		case []Value:
			src = s
		case nil:
		}
		if len(src) == 0 {
			return dst
		}
		return e.appendVals(dst, src)

	case "copy":
		dst, _ := args[0].([]Value)
		var src []Value
		switch s := args[1].(type) {
		case Str:
			src = make([]Value, s.Len())
			for i := range src {
				src[i] = s.At(i)
			}
		case []Value:
			src = s
		}
		n := len(dst)
		if len(src) < n {
			n = len(src)
		}
		// handle overlap like memmove
		tmp := make([]Value, n)
		for i := 0; i < n; i++ {
			tmp[i] = copyVal(src[i])
		}
		for i := 0; i < n; i++ {
			e.store(&dst[i], tmp[i])
		}
		return intC(int64(n))

	case "close":
		c, _ := args[0].(*Chan)
		e.chanClose(c)
		return nil

	case "delete":
		m, _ := args[0].(*Map)
		if m != nil {
			e.mapDelete(m, args[1])
		}
		return nil

	case "print", "println":
		return nil

	case "len":
		switch x := args[0].(type) {
		case Str:
			return intC(int64(x.Len()))
		case Array:
			return intC(int64(len(x)))
		case *Value:
			return intC(int64(len((*x).(Array))))
		case []Value:
			return intC(int64(len(x)))
		case *Map:
			if x == nil {
				return intC(0)
			}
			return intC(int64(len(x.ents)))
		case *Chan:
			if x == nil {
				return intC(0)
			}
			return intC(int64(len(x.buf)))
		case nil:
			return intC(0)
		}
		panic(fmt.Sprintf("len: illegal operand: %T", args[0]))

	case "cap":
		switch x := args[0].(type) {
		case Array:
			return intC(int64(cap(x)))
		case *Value:
			return intC(int64(cap((*x).(Array))))
		case []Value:
			return intC(int64(cap(x)))
		case *Chan:
			if x == nil {
				return intC(0)
			}
			return intC(int64(x.cap))
		case nil:
			return intC(0)
		}
		panic(fmt.Sprintf("cap: illegal operand: %T", args[0]))

	case "min", "max":
		r := args[0]
		for _, a := range args[1:] {
			r = e.minmax(fn, r, a, fn.Name() == "min")
		}
		return r

	case "panic":
		panic(targetPanic{args[0]})

	case "recover":
		return e.doRecover(caller)

	case "clear":
		switch x := args[0].(type) {
		case *Map:
			if x != nil {
				e.mapClear(x)
			}
		case []Value:
			for i := range x {
				// zero of element type unknown here; reuse the shape of the current value
				e.store(&x[i], zeroLike(x[i]))
			}
		}
		return nil

	case "ssa:wrapnilchk":
		recv := args[0]
		if p, ok := recv.(*Value); ok && p == nil {
			e.rtPanic(fmt.Sprintf("value method %s.%s called using nil pointer", toStringDebug(args[1]), toStringDebug(args[2])))
		}
		return recv

	case "ssa:deferstack":
		return &caller.defers
	}
	panic("unknown built-in: " + fn.Name())
}

func zeroLike(v Value) Value {
	switch v := v.(type) {
	case *smt.Term:
		switch v.S.K {
		case smt.KBool:
			return smt.False
		case smt.KFP:
			return smt.ConstF(0)
		}
		return smt.Const(v.S.W, 0)
	case Str:
		return Str{}
	case Struct:
		r := make(Struct, len(v))
		for i := range v {
			r[i] = zeroLike(v[i])
		}
		return r
	case Array:
		r := make(Array, len(v))
		for i := range v {
			r[i] = zeroLike(v[i])
		}
		return r
	case *Value:
		return (*Value)(nil)
	case []Value:
		return []Value(nil)
	case Iface:
		return Iface{}
	case *Map:
		return (*Map)(nil)
	case *Chan:
		return (*Chan)(nil)
	}
	return nil
}

func (e *Engine) minmax(fn *ssa.Builtin, a, b Value, isMin bool) Value {
	switch x := a.(type) {
	case *smt.Term:
		y := b.(*smt.Term)
		sig := fn.Type().(*types.Signature)
		t := sig.Params().At(0).Type()
		var lt *smt.Term
		if x.S.K == smt.KFP {
			lt = smt.FLt(x, y)
		} else if _, signed, _ := intInfo(t); signed {
			lt = smt.Slt(x, y)
		} else {
			lt = smt.Ult(x, y)
		}
		if isMin {
			return smt.Ite(lt, x, y)
		}
		return smt.Ite(lt, y, x)
	case Str:
		y := b.(Str)
		lt := e.branch(strLess(x, y))
		if lt == isMin {
			return x
		}
		return y
	}
	panic("minmax")
}

// appendVals appends src to dst with Go's aliasing semantics (in place if capacity allows).
func (e *Engine) appendVals(dst, src []Value) []Value {
	n := len(dst) + len(src)
	if n <= cap(dst) {
		r := dst[:n]
		for i, v := range src {
			e.store(&r[len(dst)+i], v)
		}
		return r
	}
	newCap := 2 * cap(dst)
	if newCap < n {
		newCap = n
	}
	if newCap < 4 {
		newCap = 4
	}
	r := make([]Value, n, newCap)
	for i, v := range dst {
		r[i] = copyVal(v)
	}
	for i, v := range src {
		r[len(dst)+i] = copyVal(v)
	}
	// fill spare capacity with zero-like values so later reslicing sees zeros
	if n > 0 {
		z := zeroLike(r[0])
		full := r[:newCap]
		for i := n; i < newCap; i++ {
			full[i] = copyVal(z)
		}
	}
	return r
}

// ---------------------------------------------------------------------------------------
// range iterators

type iter interface {
	next(e *Engine) Tuple
}

type stringIter struct {
	s   Str
	pos int
}

func (it *stringIter) next(e *Engine) Tuple {
	if it.pos >= it.s.Len() {
		return Tuple{smt.False, intC(0), smt.ConstS(32, 0)}
	}
	b := it.s.At(it.pos)
	if b.IsConst() && b.Val < utf8.RuneSelf {
		p := it.pos
		it.pos++
		return Tuple{smt.True, intC(int64(p)), smt.ConstS(32, int64(b.Val))}
	}
	if !b.IsConst() {
		// symbolic byte: ASCII or not?
		if e.branch(smt.Ult(b, smt.Const(8, utf8.RuneSelf))) {
			p := it.pos
			it.pos++
			return Tuple{smt.True, intC(int64(p)), smt.Zext(b, 32)}
		}
	}
	// multi-byte: need concrete bytes
	var buf []byte
	for i := it.pos; i < it.s.Len() && i < it.pos+4; i++ {
		t := it.s.At(i)
		buf = append(buf, byte(e.concretize(t)))
	}
	r, size := utf8.DecodeRune(buf)
	p := it.pos
	it.pos += size
	return Tuple{smt.True, intC(int64(p)), smt.ConstS(32, int64(r))}
}

type mapIter struct {
	m     *Map
	order []*entry
	pos   int
}

func (it *mapIter) next(e *Engine) Tuple {
	for it.pos < len(it.order) {
		en := it.order[it.pos]
		it.pos++
		if en.deleted {
			continue
		}
		return Tuple{smt.True, en.key, copyVal(en.val)}
	}
	return Tuple{smt.False, nil, nil}
}

func (e *Engine) rangeIter(x Value, t types.Type) iter {
	switch x := x.(type) {
	case *Map:
		if x == nil {
			return &mapIter{}
		}
		order := append([]*entry(nil), x.ents...)
		if e.mapOrderPerm && len(order) > 1 && len(order) <= 4 {
			// explore every iteration order
			perm := make([]*entry, 0, len(order))
			rest := order
			for len(rest) > 0 {
				k := e.choose(len(rest), "maporder")
				perm = append(perm, rest[k])
				rest = append(append([]*entry(nil), rest[:k]...), rest[k+1:]...)
			}
			order = perm
		}
		return &mapIter{m: x, order: order}
	case Str:
		return &stringIter{s: x}
	}
	panic(fmt.Sprintf("cannot range over %T", x))
}
