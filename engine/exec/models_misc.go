package exec

import (
	"go/types"

	"golang.org/x/tools/go/ssa"

	"symgo/smt"
)

func (e *Engine) newZeroPtr(pkg, typ string) Value {
	p := e.Prog.ImportedPackage(pkg)
	if p == nil {
		e.unsupported("package not loaded: " + pkg)
	}
	t := p.Type(typ).Object().Type()
	var cell Value = zero(t)
	return &cell
}

func init() {
	extraModels = append(extraModels, func(m map[string]modelFn) {
		// hash/maphash, math/rand/v2: values are arbitrary; only the contracts matter
		m["hash/maphash.MakeSeed"] = func(fr *frame, a []Value) Value {
			p := fr.e.Prog.ImportedPackage("hash/maphash")
			return zero(p.Type("Seed").Object().Type())
		}
		m["(*hash/maphash.Hash).SetSeed"] = func(fr *frame, a []Value) Value { return nil }
		m["(*hash/maphash.Hash).Sum64"] = func(fr *frame, a []Value) Value { return fr.e.fresh("maphash", smt.BV(64)) }
		m["math/rand/v2.NewPCG"] = func(fr *frame, a []Value) Value { return fr.e.newZeroPtr("math/rand/v2", "PCG") }
		m["math/rand/v2.New"] = func(fr *frame, a []Value) Value { return fr.e.newZeroPtr("math/rand/v2", "Rand") }
		m["(*math/rand/v2.Rand).Int64N"] = func(fr *frame, a []Value) Value {
			e := fr.e
			n := term(a[1])
			if e.branch(smt.Sle(n, intC(0))) {
				panic(targetPanic{Iface{T: types.Typ[types.String], V: mkStr("invalid argument to Int64N")}})
			}
			r := e.fresh("rand", smt.BV(64))
			e.addPC(smt.And(smt.Sle(intC(0), r), smt.Slt(r, n)))
			e.Assumptions["rand.Int64N(n): arbitrary value in [0,n), panics iff n <= 0"] = true
			return r
		}
		m["maps.clone"] = func(fr *frame, a []Value) Value {
			i := a[0].(Iface)
			src, _ := i.V.(*Map)
			if src == nil {
				return i
			}
			dst := &Map{kt: src.kt, vt: src.vt, idx: map[string]*entry{}}
			for _, en := range src.ents {
				ne := &entry{key: en.key, val: copyVal(en.val), ckey: en.ckey, conc: en.conc}
				dst.ents = append(dst.ents, ne)
				if ne.conc {
					dst.idx[ne.ckey] = ne
				} else {
					dst.nsym++
				}
			}
			return Iface{T: i.T, V: dst}
		}
		// math.Pow(x, y): fresh value r with r >= 1 (possibly +Inf) when x >= 1 and y >= 0, r = 1 when y = 0,
		// r = x when y = 1; otherwise unconstrained.
		m["math.Pow"] = func(fr *frame, a []Value) Value {
			e := fr.e
			x, y := term(a[0]), term(a[1])
			if x.IsConst() && y.IsConst() {
				return smt.ConstF(mathPow(x.Float(), y.Float()))
			}
			r := smt.FFromBits(e.fresh("pow", smt.BV(64)))
			one := smt.ConstF(1)
			zeroF := smt.ConstF(0)
			c1 := smt.Implies(smt.And(smt.FLe(one, x), smt.FLe(zeroF, y)), smt.And(smt.FLe(one, r), smt.Not(smt.FIsNaN(r))))
			c2 := smt.Implies(smt.FEq(y, zeroF), smt.FEq(r, one))
			c3 := smt.Implies(smt.FEq(y, one), smt.FEq(r, x))
			e.addPC(smt.AndN(c1, c2, c3))
			e.Assumptions["math.Pow(x,y): arbitrary r with r>=1 (maybe +Inf) for x>=1,y>=0; r=1 for y=0; r=x for y=1"] = true
			return r
		}
	})
}

func mathPow(x, y float64) float64 { return mathPowImpl(x, y) }


// setupHTTPGlobals initialises the few net/http globals interpreted code reads (the package
// initialiser itself is skipped: default transport, HTTP/2 tables, ...).
func (e *Engine) setupHTTPGlobals(pkg *ssa.Package) {
	if g := pkg.Var("NoBody"); g != nil {
		if t := pkg.Type("noBody"); t != nil {
			*e.globals[g] = Struct{}
			e.okGlobal(g)
		}
	}
	if g := pkg.Var("DefaultClient"); g != nil {
		if t := pkg.Type("Client"); t != nil {
			var cell Value = zero(t.Object().Type())
			*e.globals[g] = &cell
			e.okGlobal(g)
		}
	}
	for _, n := range []string{"ErrUseLastResponse", "ErrBodyReadAfterClose", "ErrNoLocation", "ErrMissingFile"} {
		if g := pkg.Var(n); g != nil {
			*e.globals[g] = e.mkError(mkStr("net/http: "+n), nil)
			e.okGlobal(g)
		}
	}
}

func init() {
	extraModels = append(extraModels, func(m map[string]modelFn) {
		// http.Client.Do = one RoundTrip of the configured transport (no redirects, cookies, timeouts)
		m["(*net/http.Client).Do"] = func(fr *frame, a []Value) Value {
			e := fr.e
			cp := a[0].(*Value)
			if cp == nil {
				e.rtPanic("nil http.Client")
			}
			ct := e.Prog.ImportedPackage("net/http").Type("Client").Object().Type()
			tr, _ := (*cp).(Struct)[structFieldIndex(ct, "Transport")].(Iface)
			if tr.T == nil {
				e.unsupported("http.Client without a Transport (no network in the model)")
			}
			e.Assumptions["http.Client.Do modelled as one Transport.RoundTrip (no redirects, cookies, timeouts)"] = true
			res, ok := e.callMethod(fr, tr.T, tr.V, "RoundTrip", a[1])
			if !ok {
				e.unsupported("Transport without RoundTrip")
			}
			return res
		}
	})
}
