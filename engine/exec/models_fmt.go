package exec

import (
	"fmt"
	"go/types"
	"strconv"
	"strings"

	"golang.org/x/tools/go/ssa"
	"symgo/smt"
)

// callMethod calls method name on v (dynamic type t) if present.
func (e *Engine) callMethod(fr *frame, t types.Type, v Value, name string, args ...Value) (Value, bool) {
	ms := e.Prog.MethodSets.MethodSet(t)
	for i := 0; i < ms.Len(); i++ {
		sel := ms.At(i)
		if sel.Obj().Name() == name {
			fn := e.Prog.MethodValue(sel)
			if fn == nil {
				return nil, false
			}
			return e.callFn(fr, fn, append([]Value{v}, args...)), true
		}
	}
	return nil, false
}

func hasMethod(prog *ssa.Program, t types.Type, name string) *types.Func {
	ms := prog.MethodSets.MethodSet(t)
	for i := 0; i < ms.Len(); i++ {
		if ms.At(i).Obj().Name() == name {
			return ms.At(i).Obj().(*types.Func)
		}
	}
	return nil
}

var errorIface = types.Universe.Lookup("error").Type().Underlying().(*types.Interface)

// errorString calls err.Error().
func (e *Engine) errorString(fr *frame, err Iface) Str {
	if err.T == nil {
		return mkStr("<nil>")
	}
	r, ok := e.callMethod(fr, err.T, err.V, "Error")
	if !ok {
		return mkStr("<?>")
	}
	return r.(Str)
}

// fmtErrorT is the dynamic type used for errors made by the fmt.Errorf model: we reuse
// *fmt.wrapError / *fmt.wrapErrors / *errors.errorString from the program so that
// interpreted code (Unwrap, Error) keeps working.
func (e *Engine) mkError(msg Str, wrapped []Iface) Value {
	fmtPkg := e.Prog.ImportedPackage("fmt")
	errPkg := e.Prog.ImportedPackage("errors")
	switch len(wrapped) {
	case 0:
		if errPkg != nil {
			t := errPkg.Type("errorString").Object().Type()
			var cell Value = Struct{msg}
			return Iface{T: types.NewPointer(t), V: &cell}
		}
	case 1:
		if fmtPkg != nil {
			t := fmtPkg.Type("wrapError").Object().Type()
			var cell Value = Struct{msg, wrapped[0]}
			return Iface{T: types.NewPointer(t), V: &cell}
		}
	default:
		if fmtPkg != nil {
			t := fmtPkg.Type("wrapErrors").Object().Type()
			errs := make([]Value, len(wrapped))
			for i, w := range wrapped {
				errs[i] = w
			}
			var cell Value = Struct{msg, errs}
			return Iface{T: types.NewPointer(t), V: &cell}
		}
	}
	panic("mkError: fmt/errors packages not loaded")
}

// formatValue renders v (an interface value) for %v/%s/%d/%q.
func (e *Engine) formatValue(fr *frame, verb byte, arg Iface, flags string, forError bool) Str {
	if arg.T == nil {
		if verb == 'v' || verb == 's' {
			return mkStr("<nil>")
		}
		return mkStr("%!" + string(verb) + "(<nil>)")
	}
	if verb == 'T' {
		return mkStr(arg.T.String())
	}
	// error / Stringer
	if verb == 'v' || verb == 's' || verb == 'q' {
		if types.Implements(arg.T, errorIface) {
			if p, ok := arg.V.(*Value); ok && p == nil {
				return mkStr("<nil>")
			}
			s := e.errorString(fr, arg)
			if verb == 'q' {
				return e.quote(s)
			}
			return s
		}
		if m := hasMethod(e.Prog, arg.T, "String"); m != nil {
			sig := m.Type().(*types.Signature)
			if sig.Params().Len() == 0 && sig.Results().Len() == 1 && isString(sig.Results().At(0).Type()) {
				if p, ok := arg.V.(*Value); ok && p == nil {
					return mkStr("<nil>")
				}
				r, _ := e.callMethod(fr, arg.T, arg.V, "String")
				if verb == 'q' {
					return e.quote(r.(Str))
				}
				return r.(Str)
			}
		}
	}
	switch v := arg.V.(type) {
	case Str:
		switch verb {
		case 'q':
			return e.quote(v)
		case 'x':
			return e.hexStr(v)
		}
		return v
	case *smt.Term:
		switch v.S.K {
		case smt.KBool:
			if v.IsConst() {
				return mkStr(strconv.FormatBool(v.IsTrue()))
			}
			if forError {
				return mkStr("<bool>")
			}
			if e.branch(v) {
				return mkStr("true")
			}
			return mkStr("false")
		case smt.KFP:
			if v.IsConst() {
				return mkStr(strconv.FormatFloat(v.Float(), 'g', -1, 64))
			}
			return mkStr("<float>")
		}
		_, signed, _ := intInfo(arg.T)
		if !v.IsConst() {
			if forError {
				return mkStr("<int>")
			}
			v = smt.Const(v.S.W, e.concretize(v))
		}
		base := 10
		switch verb {
		case 'x':
			base = 16
		case 'X':
			base = 16
		case 'o':
			base = 8
		case 'b':
			base = 2
		case 'c':
			return mkStr(string(rune(v.SInt())))
		case 'q':
			return mkStr(strconv.QuoteRune(rune(v.SInt())))
		}
		var s string
		if signed {
			s = strconv.FormatInt(v.SInt(), base)
		} else {
			s = strconv.FormatUint(v.Val, base)
		}
		if verb == 'X' {
			s = strings.ToUpper(s)
		}
		return mkStr(applyWidth(s, flags))
	case []Value:
		// []byte with %s / %x
		if isByteSlice(arg.T) {
			s := valsToStr(v)
			switch verb {
			case 's':
				return s
			case 'x':
				return e.hexStr(s)
			case 'q':
				return e.quote(s)
			}
		}
		parts := []Str{mkStr("[")}
		et := arg.T.Underlying().(*types.Slice).Elem()
		for i, el := range v {
			if i > 0 {
				parts = append(parts, mkStr(" "))
			}
			parts = append(parts, e.formatValue(fr, verb, toIface(et, el), flags, forError))
		}
		parts = append(parts, mkStr("]"))
		r := Str{}
		for _, p := range parts {
			r = strConcat(r, p)
		}
		return r
	case *Value:
		if v == nil {
			return mkStr("<nil>")
		}
		if st, ok := arg.T.Underlying().(*types.Pointer); ok {
			if _, isStruct := st.Elem().Underlying().(*types.Struct); isStruct {
				return strConcat(mkStr("&"), e.formatValue(fr, verb, Iface{T: st.Elem(), V: *v}, flags, forError))
			}
		}
		return mkStr("0xc000000000")
	case Struct:
		st := arg.T.Underlying().(*types.Struct)
		r := mkStr("{")
		for i, f := range v {
			if i > 0 {
				r = strConcat(r, mkStr(" "))
			}
			if strings.Contains(flags, "+") {
				r = strConcat(r, mkStr(st.Field(i).Name()+":"))
			}
			r = strConcat(r, e.formatValue(fr, 'v', toIface(st.Field(i).Type(), f), flags, forError))
		}
		return strConcat(r, mkStr("}"))
	case Iface:
		return e.formatValue(fr, verb, v, flags, forError)
	case *Map:
		return mkStr("map[...]")
	}
	return mkStr(fmt.Sprintf("<%T>", arg.V))
}

func toIface(t types.Type, v Value) Iface {
	if _, ok := t.Underlying().(*types.Interface); ok {
		if i, ok := v.(Iface); ok {
			return i
		}
	}
	return Iface{T: t, V: v}
}

func isByteSlice(t types.Type) bool {
	s, ok := t.Underlying().(*types.Slice)
	if !ok {
		return false
	}
	b, ok := s.Elem().Underlying().(*types.Basic)
	return ok && b.Kind() == types.Uint8
}

func applyWidth(s, flags string) string {
	// flags like "02", "5", "-5"
	f := strings.TrimLeft(flags, "+# ")
	if f == "" {
		return s
	}
	left := false
	if strings.HasPrefix(f, "-") {
		left = true
		f = f[1:]
	}
	zero := strings.HasPrefix(f, "0")
	w, err := strconv.Atoi(f)
	if err != nil || len(s) >= w {
		return s
	}
	pad := strings.Repeat(" ", w-len(s))
	if zero && !left {
		pad = strings.Repeat("0", w-len(s))
		if strings.HasPrefix(s, "-") {
			return "-" + pad + s[1:]
		}
	}
	if left {
		return s + pad
	}
	return pad + s
}

func (e *Engine) hexStr(s Str) Str {
	const hexd = "0123456789abcdef"
	out := make([]*smt.Term, 0, 2*s.Len())
	for i := 0; i < s.Len(); i++ {
		b := s.At(i)
		out = append(out, hexDigit(smt.Extract(b, 7, 4)), hexDigit(smt.Extract(b, 3, 0)))
	}
	return mkStrB(out)
}

// hexOf remembers which byte terms are hex characters of a 4-bit term, so that comparisons
// between hex strings fold to comparisons between nibbles.
var hexOf = map[*smt.Term]*smt.Term{}

// hexDigit maps a 4-bit term to its lowercase hex character.
func hexDigit(n *smt.Term) *smt.Term {
	if n.IsConst() {
		return byteConst["0123456789abcdef"[n.Val]]
	}
	n8 := smt.Zext(n, 8)
	r := smt.Ite(smt.Ult(n8, smt.Const(8, 10)), smt.Add(n8, byteConst['0']), smt.Add(n8, smt.Const(8, 'a'-10)))
	hexOf[r] = n
	return r
}

// byteEq is smt.Eq on bytes with folding through hexOf.
func byteEq(a, b *smt.Term) *smt.Term {
	na, oka := hexOf[a]
	nb, okb := hexOf[b]
	switch {
	case oka && okb:
		return smt.Eq(na, nb)
	case oka && b.IsConst():
		return hexConstEq(na, byte(b.Val))
	case okb && a.IsConst():
		return hexConstEq(nb, byte(a.Val))
	}
	return smt.Eq(a, b)
}

func hexConstEq(n *smt.Term, c byte) *smt.Term {
	switch {
	case c >= '0' && c <= '9':
		return smt.Eq(n, smt.Const(4, uint64(c-'0')))
	case c >= 'a' && c <= 'f':
		return smt.Eq(n, smt.Const(4, uint64(c-'a'+10)))
	}
	return smt.False
}

// byteInRange is lo <= b <= hi with folding through hexOf.
func byteInRange(b *smt.Term, lo, hi byte) *smt.Term {
	if n, ok := hexOf[b]; ok {
		r := smt.False
		all := true
		for v := 0; v < 16; v++ {
			c := "0123456789abcdef"[v]
			if c >= lo && c <= hi {
				r = smt.Or(r, smt.Eq(n, smt.Const(4, uint64(v))))
			} else {
				all = false
			}
		}
		if all {
			return smt.True
		}
		return r
	}
	if lo == hi {
		return smt.Eq(b, byteConst[lo])
	}
	return smt.And(smt.Ule(byteConst[lo], b), smt.Ule(b, byteConst[hi]))
}

// quote implements %q for strings whose bytes are printable ASCII without quotes or
// backslashes (assumed for symbolic bytes and recorded).
func (e *Engine) quote(s Str) Str {
	if c, ok := s.Concrete(); ok {
		return mkStr(strconv.Quote(c))
	}
	e.Assumptions["%q of symbolic string rendered without escapes"] = true
	return strConcat(strConcat(mkStr("\""), s), mkStr("\""))
}

// sprintf formats; wrapped collects %w operands.
func (e *Engine) sprintf(fr *frame, format string, args []Value, forError bool) (Str, []Iface) {
	out := Str{}
	var wrapped []Iface
	argi := 0
	i := 0
	lit := func(s string) {
		if s != "" {
			out = strConcat(out, mkStr(s))
		}
	}
	for i < len(format) {
		j := strings.IndexByte(format[i:], '%')
		if j < 0 {
			lit(format[i:])
			break
		}
		lit(format[i : i+j])
		i += j + 1
		if i >= len(format) {
			lit("%!(NOVERB)")
			break
		}
		k := i
		for k < len(format) && strings.IndexByte("+-# 0123456789.*", format[k]) >= 0 {
			k++
		}
		flags := format[i:k]
		if k >= len(format) {
			lit("%!(NOVERB)")
			break
		}
		verb := format[k]
		i = k + 1
		if verb == '%' {
			lit("%")
			continue
		}
		if strings.Contains(flags, "*") || strings.Contains(flags, ".") {
			if !forError {
				e.unsupported("fmt flags " + flags)
			}
		}
		if argi >= len(args) {
			lit("%!" + string(verb) + "(MISSING)")
			continue
		}
		arg, _ := args[argi].(Iface)
		argi++
		if verb == 'w' {
			if arg.T != nil && types.Implements(arg.T, errorIface) {
				wrapped = append(wrapped, arg)
			}
			verb = 'v'
		}
		out = strConcat(out, e.formatValue(fr, verb, arg, flags, forError))
	}
	if argi < len(args) {
		lit("%!(EXTRA)")
	}
	return out, wrapped
}

func (e *Engine) sprint(fr *frame, args []Value, ln bool) Str {
	out := Str{}
	prevStr := false
	for i, a := range args {
		arg, _ := a.(Iface)
		_, isStr := arg.V.(Str)
		if i > 0 && (ln || (!isStr && !prevStr)) {
			out = strConcat(out, mkStr(" "))
		}
		out = strConcat(out, e.formatValue(fr, 'v', arg, "", false))
		prevStr = isStr
	}
	if ln {
		out = strConcat(out, mkStr("\n"))
	}
	return out
}

func strToVals(s Str) []Value {
	r := make([]Value, s.Len())
	for i := range r {
		r[i] = s.At(i)
	}
	return r
}

func registerErrorsFmt(m map[string]modelFn) {
	m["fmt.Sprintf"] = func(fr *frame, a []Value) Value {
		f := fr.e.concStr(a[0], "format")
		args, _ := a[1].([]Value)
		s, _ := fr.e.sprintf(fr, f, args, false)
		return s
	}
	m["fmt.Errorf"] = func(fr *frame, a []Value) Value {
		f := fr.e.concStr(a[0], "format")
		args, _ := a[1].([]Value)
		s, w := fr.e.sprintf(fr, f, args, true)
		return fr.e.mkError(s, w)
	}
	m["fmt.Sprint"] = func(fr *frame, a []Value) Value {
		args, _ := a[0].([]Value)
		return fr.e.sprint(fr, args, false)
	}
	m["fmt.Sprintln"] = func(fr *frame, a []Value) Value {
		args, _ := a[0].([]Value)
		return fr.e.sprint(fr, args, true)
	}
	writeTo := func(fr *frame, w Value, s Str) Value {
		wi := w.(Iface)
		r, ok := fr.e.callMethod(fr, wi.T, wi.V, "Write", strToVals(s))
		if !ok {
			fr.e.unsupported("fmt.Fprint: writer without Write")
		}
		return r
	}
	m["fmt.Fprintf"] = func(fr *frame, a []Value) Value {
		f := fr.e.concStr(a[1], "format")
		args, _ := a[2].([]Value)
		s, _ := fr.e.sprintf(fr, f, args, false)
		return writeTo(fr, a[0], s)
	}
	m["fmt.Fprint"] = func(fr *frame, a []Value) Value {
		args, _ := a[1].([]Value)
		return writeTo(fr, a[0], fr.e.sprint(fr, args, false))
	}
	m["fmt.Fprintln"] = func(fr *frame, a []Value) Value {
		args, _ := a[1].([]Value)
		return writeTo(fr, a[0], fr.e.sprint(fr, args, true))
	}
	for _, n := range []string{"fmt.Println", "fmt.Printf", "fmt.Print", "log.Printf", "log.Println", "log.Print"} {
		m[n] = func(fr *frame, a []Value) Value { return Tuple{intC(0), Iface{}} }
	}

	m["encoding/hex.EncodeToString"] = func(fr *frame, a []Value) Value {
		return fr.e.hexStr(valsToStr(a[0]))
	}
	m["errors.Is"] = func(fr *frame, a []Value) Value {
		return smt.B(fr.e.errorsIs(fr, a[0].(Iface), a[1].(Iface), 0))
	}
	m["errors.As"] = func(fr *frame, a []Value) Value {
		return smt.B(fr.e.errorsAs(fr, a[0].(Iface), a[1].(Iface), 0))
	}
	m["errors.Join"] = nil
	delete(m, "errors.Join")
}

func (e *Engine) errorsIs(fr *frame, err, target Iface, depth int) bool {
	if err.T == nil || target.T == nil {
		return err.T == nil && target.T == nil
	}
	if depth > 50 {
		e.abort("bound", "errors.Is chain too long")
	}
	for {
		if types.Comparable(target.T) && types.Identical(err.T, target.T) {
			if e.branch(e.equals(err.T, err.V, target.V)) {
				return true
			}
		}
		if m := hasMethod(e.Prog, err.T, "Is"); m != nil {
			sig := m.Type().(*types.Signature)
			if sig.Params().Len() == 1 && sig.Results().Len() == 1 && isBool(sig.Results().At(0).Type()) {
				r, _ := e.callMethod(fr, err.T, err.V, "Is", target)
				if e.branch(term(r)) {
					return true
				}
			}
		}
		m := hasMethod(e.Prog, err.T, "Unwrap")
		if m == nil {
			return false
		}
		sig := m.Type().(*types.Signature)
		if sig.Params().Len() != 0 || sig.Results().Len() != 1 {
			return false
		}
		r, _ := e.callMethod(fr, err.T, err.V, "Unwrap")
		switch rv := r.(type) {
		case Iface:
			if rv.T == nil {
				return false
			}
			err = rv
		case []Value:
			for _, x := range rv {
				xi := x.(Iface)
				if xi.T != nil && e.errorsIs(fr, xi, target, depth+1) {
					return true
				}
			}
			return false
		default:
			return false
		}
	}
}

func (e *Engine) errorsAs(fr *frame, err, target Iface, depth int) bool {
	if err.T == nil {
		return false
	}
	if target.T == nil {
		e.goPanicStr("errors: target cannot be nil")
	}
	pt, ok := target.T.Underlying().(*types.Pointer)
	if !ok {
		e.goPanicStr("errors: target must be a non-nil pointer")
	}
	tp := target.V.(*Value)
	if tp == nil {
		e.goPanicStr("errors: target must be a non-nil pointer")
	}
	targetType := pt.Elem()
	_, targetIsIface := targetType.Underlying().(*types.Interface)
	for {
		if targetIsIface {
			if types.Implements(err.T, targetType.Underlying().(*types.Interface)) {
				e.store(tp, err)
				return true
			}
		} else if types.Identical(err.T, targetType) {
			e.store(tp, err.V)
			return true
		}
		if m := hasMethod(e.Prog, err.T, "As"); m != nil {
			sig := m.Type().(*types.Signature)
			if sig.Params().Len() == 1 && sig.Results().Len() == 1 && isBool(sig.Results().At(0).Type()) {
				r, _ := e.callMethod(fr, err.T, err.V, "As", target)
				if e.branch(term(r)) {
					return true
				}
			}
		}
		m := hasMethod(e.Prog, err.T, "Unwrap")
		if m == nil {
			return false
		}
		sig := m.Type().(*types.Signature)
		if sig.Params().Len() != 0 || sig.Results().Len() != 1 {
			return false
		}
		r, _ := e.callMethod(fr, err.T, err.V, "Unwrap")
		switch rv := r.(type) {
		case Iface:
			if rv.T == nil {
				return false
			}
			err = rv
		case []Value:
			for _, x := range rv {
				xi := x.(Iface)
				if xi.T != nil && e.errorsAs(fr, xi, target, depth+1) {
					return true
				}
			}
			return false
		default:
			return false
		}
	}
}
