package exec

import (
	"go/types"

	"symgo/smt"
)

// Minimal reflect model: TypeOf gives a unique *rtype per dynamic type (so that type
// objects compare correctly), ValueOf/Field/Interface carry the value in Value.ptr.

var rtypeIntern = map[string]*Value{}

func (e *Engine) reflectTypeOf(t types.Type) Value {
	rp := e.Prog.ImportedPackage("reflect")
	if rp == nil {
		e.unsupported("reflect package not loaded")
	}
	rt := rp.Type("rtype").Object().Type()
	if t == nil {
		return Iface{}
	}
	key := t.String()
	p, ok := rtypeIntern[key]
	if !ok {
		var cell Value = zero(rt)
		p = &cell
		rtypeIntern[key] = p
	}
	return Iface{T: types.NewPointer(rt), V: p}
}

func (e *Engine) reflectValue(i Iface) Value {
	rp := e.Prog.ImportedPackage("reflect")
	vt := rp.Type("Value").Object().Type()
	sv := zero(vt).(Struct)
	var cell Value = i
	sv[structFieldIndex(vt, "ptr")] = UPtr{P: &cell}
	return sv
}

func (e *Engine) reflectUnbox(v Value) Iface {
	rp := e.Prog.ImportedPackage("reflect")
	vt := rp.Type("Value").Object().Type()
	up, _ := v.(Struct)[structFieldIndex(vt, "ptr")].(UPtr)
	p, _ := up.P.(*Value)
	if p == nil {
		return Iface{}
	}
	return (*p).(Iface)
}

func init() {
	extraModels = append(extraModels, func(m map[string]modelFn) {
		m["reflect.TypeOf"] = func(fr *frame, a []Value) Value {
			return fr.e.reflectTypeOf(a[0].(Iface).T)
		}
		m["reflect.ValueOf"] = func(fr *frame, a []Value) Value {
			return fr.e.reflectValue(a[0].(Iface))
		}
		m["(reflect.Value).Field"] = func(fr *frame, a []Value) Value {
			e := fr.e
			i := e.reflectUnbox(a[0])
			st, ok := i.T.Underlying().(*types.Struct)
			if !ok {
				e.goPanicStr("reflect: Field of non-struct")
			}
			k := int(e.concInt(a[1]))
			ft := st.Field(k).Type()
			fv := i.V.(Struct)[k]
			if _, isIface := ft.Underlying().(*types.Interface); isIface {
				return e.reflectValue(fv.(Iface))
			}
			return e.reflectValue(Iface{T: ft, V: fv})
		}
		m["(reflect.Value).Interface"] = func(fr *frame, a []Value) Value { return fr.e.reflectUnbox(a[0]) }
		m["(reflect.Value).IsValid"] = func(fr *frame, a []Value) Value { return smt.B(fr.e.reflectUnbox(a[0]).T != nil) }
		m["(*reflect.rtype).String"] = func(fr *frame, a []Value) Value {
			for k, p := range rtypeIntern {
				if p == a[0].(*Value) {
					return mkStr(k)
				}
			}
			return mkStr("?")
		}
		m["(syscall.Errno).Error"] = func(fr *frame, a []Value) Value {
			names := map[uint64]string{2: "no such file or directory", 17: "file exists", 20: "not a directory", 21: "is a directory",
				22: "invalid argument", 39: "directory not empty", 40: "too many levels of symbolic links", 1: "operation not permitted", 9: "bad file descriptor"}
			t := term(a[0])
			if s, ok := names[t.Val]; ok {
				return mkStr(s)
			}
			return mkStr("errno")
		}
	})
}
