package exec

import (
	"fmt"
	"go/types"
	"strconv"
	"strings"

	"golang.org/x/tools/go/ssa"
	"symgo/smt"
)

type entry struct {
	key     Value
	val     Value
	ckey    string // canonical string when the key is fully concrete
	conc    bool
	deleted bool
}

// Map is an insertion-ordered association list with an index for concrete keys.
// Keys are pairwise distinct under the path condition.
type Map struct {
	kt, vt types.Type
	ents   []*entry
	idx    map[string]*entry
	nsym   int
}

func (e *Engine) makeMap(t types.Type) *Map {
	mt := t.Underlying().(*types.Map)
	return &Map{kt: mt.Key(), vt: mt.Elem(), idx: map[string]*entry{}}
}

// keyString returns a canonical string for a fully concrete key.
func keyString(v Value, sb *strings.Builder) bool {
	switch v := v.(type) {
	case *smt.Term:
		if !v.IsConst() {
			return false
		}
		sb.WriteString("i")
		sb.WriteString(strconv.FormatUint(v.Val, 16))
		sb.WriteString(";")
		return true
	case Str:
		s, ok := v.Concrete()
		if !ok {
			return false
		}
		sb.WriteString("s")
		sb.WriteString(strconv.Itoa(len(s)))
		sb.WriteString(":")
		sb.WriteString(s)
		return true
	case Struct:
		sb.WriteString("{")
		for _, f := range v {
			if !keyString(f, sb) {
				return false
			}
		}
		sb.WriteString("}")
		return true
	case Array:
		sb.WriteString("[")
		for _, f := range v {
			if !keyString(f, sb) {
				return false
			}
		}
		sb.WriteString("]")
		return true
	case *Value:
		fmt.Fprintf(sb, "p%p;", v)
		return true
	case Iface:
		if v.T == nil {
			sb.WriteString("nil;")
			return true
		}
		sb.WriteString("I<")
		sb.WriteString(v.T.String())
		sb.WriteString(">")
		return keyString(v.V, sb)
	case *Chan:
		fmt.Fprintf(sb, "c%p;", v)
		return true
	case UPtr:
		fmt.Fprintf(sb, "u%p;", v.P)
		return true
	case *Map:
		fmt.Fprintf(sb, "m%p;", v)
		return true
	}
	return false
}

func (e *Engine) mapSnapshot(m *Map) {
	if e.inInit {
		return
	}
	oldEnts := append([]*entry(nil), m.ents...)
	oldVals := make([]Value, len(oldEnts))
	oldDel := make([]bool, len(oldEnts))
	for i, en := range oldEnts {
		oldVals[i] = en.val
		oldDel[i] = en.deleted
	}
	oldN := m.nsym
	e.logUndo(func() {
		m.ents = oldEnts
		m.idx = map[string]*entry{}
		for i, en := range oldEnts {
			en.val = oldVals[i]
			en.deleted = oldDel[i]
			if en.conc {
				m.idx[en.ckey] = en
			}
		}
		m.nsym = oldN
	})
}

// find returns the entry whose key equals key (forking on symbolic comparisons) or nil.
func (e *Engine) mapFind(m *Map, key Value) *entry {
	var sb strings.Builder
	conc := keyString(key, &sb)
	if conc && m.nsym == 0 {
		return m.idx[sb.String()]
	}
	if conc {
		if en, ok := m.idx[sb.String()]; ok {
			return en
		}
	}
	for _, en := range m.ents {
		if conc && en.conc {
			continue // distinct canonical strings => different keys
		}
		eq := e.equals(m.kt, key, en.key)
		if eq.IsFalse() {
			continue
		}
		if e.branch(eq) {
			return en
		}
	}
	return nil
}

func (e *Engine) mapInsert(m *Map, key, val Value) {
	en := e.mapFind(m, key)
	e.mapSnapshot(m)
	if en != nil {
		en.val = val
		return
	}
	var sb strings.Builder
	ne := &entry{key: copyVal(key), val: val}
	if keyString(key, &sb) {
		ne.conc = true
		ne.ckey = sb.String()
		m.idx[ne.ckey] = ne
	} else {
		m.nsym++
	}
	m.ents = append(m.ents, ne)
}

func (e *Engine) mapDelete(m *Map, key Value) {
	en := e.mapFind(m, key)
	if en == nil {
		return
	}
	e.mapSnapshot(m)
	en.deleted = true
	for i, x := range m.ents {
		if x == en {
			m.ents = append(m.ents[:i:i], m.ents[i+1:]...)
			break
		}
	}
	if en.conc {
		delete(m.idx, en.ckey)
	} else {
		m.nsym--
	}
}

func (e *Engine) mapClear(m *Map) {
	e.mapSnapshot(m)
	for _, en := range m.ents {
		en.deleted = true
	}
	m.ents = nil
	m.idx = map[string]*entry{}
	m.nsym = 0
}

func (e *Engine) lookup(instr *ssa.Lookup, x, idx Value) Value {
	m, _ := x.(*Map)
	mt := instr.X.Type().Underlying().(*types.Map)
	var v Value
	ok := false
	if m != nil {
		if en := e.mapFind(m, idx); en != nil {
			v, ok = copyVal(en.val), true
		}
	}
	if !ok {
		v = zero(mt.Elem())
	}
	if instr.CommaOk {
		return Tuple{v, smt.B(ok)}
	}
	return v
}

// mapGet is a helper for models.
func (e *Engine) mapGet(m *Map, key Value) (Value, bool) {
	if m == nil {
		return nil, false
	}
	if en := e.mapFind(m, key); en != nil {
		return en.val, true
	}
	return nil, false
}
