package exec

import (
	"fmt"
	"go/types"
	"sort"
	"strings"

	"golang.org/x/tools/go/ssa"
	"symgo/smt"
)

// POSIX file-system model (appendix E.3 of DESIGN.md). Paths are concrete strings, file
// contents are (possibly symbolic) bytes. One model instance lives for one path; a
// symbolic crash point ends the path between two mutating primitives and the registered
// AfterCrash function then runs on the surviving state.

const (
	inoDir = iota
	inoFile
	inoLink
)

type inode struct {
	kind    int
	data    []*smt.Term
	mode    uint32 // permission bits
	target  string
	entries map[string]*inode
	nlink   int
	id      int
	mtime   Value // time.Time struct value set by os.Chtimes (nil: zero time)
}

type openFile struct {
	ino    *inode
	pos    int
	name   string
	flags  int64
	closed bool
	dirPos int
}

type fsModel struct {
	root    *inode
	cwd     string
	nextID  int
	nextTmp int
	steps   int
	crashAt int
	armed   bool
	log     []string
}

const (
	oRDONLY = 0x0
	oWRONLY = 0x1
	oRDWR   = 0x2
	oAPPEND = 0x400
	oCREATE = 0x40
	oEXCL   = 0x80
	oSYNC   = 0x101000
	oTRUNC  = 0x200
)

const (
	eNOENT    = 2
	eEXIST    = 17
	eNOTDIR   = 20
	eISDIR    = 21
	eINVAL    = 22
	eNOTEMPTY = 39
	eLOOP     = 40
	ePERM     = 1
	eXDEV     = 18
	eBADF     = 9
)

func (e *Engine) fs() *fsModel {
	if e.fsys == nil {
		f := &fsModel{crashAt: -1, cwd: "/cwd"}
		f.root = f.newInode(inoDir, 0o755)
		e.fsys = f
		f.mkdirAll("/tmp")
		f.mkdirAll("/cwd")
	}
	return e.fsys
}

func (f *fsModel) newInode(kind int, mode uint32) *inode {
	f.nextID++
	n := &inode{kind: kind, mode: mode, nlink: 1, id: f.nextID}
	if kind == inoDir {
		n.entries = map[string]*inode{}
	}
	return n
}

func (f *fsModel) tempDir() string {
	f.nextTmp++
	d := fmt.Sprintf("/tmp/verif%d", f.nextTmp)
	f.mkdirAll(d)
	return d
}

func (f *fsModel) mkdirAll(p string) {
	cur := f.root
	for _, seg := range strings.Split(p, "/") {
		if seg == "" || seg == "." {
			continue
		}
		nx, ok := cur.entries[seg]
		if !ok {
			nx = f.newInode(inoDir, 0o755)
			cur.entries[seg] = nx
		}
		cur = nx
	}
}

// mutation is called before every mutating primitive: the symbolic crash point.
func (f *fsModel) mutation(e *Engine, what string) {
	f.steps++
	if len(f.log) < 200 {
		f.log = append(f.log, what)
	}
	if f.armed {
		if e.choose(2, "crash") == 1 {
			f.armed = false
			if len(e.events) < 200 {
				e.events = append(e.events, fmt.Sprintf("CRASH before step %d: %s", f.steps, what))
			}
			e.abort("crash", fmt.Sprintf("before step %d: %s", f.steps, what))
		}
	}
}

func (f *fsModel) armCrash(e *Engine) { f.armed = true }

// resolve walks path. It returns the parent directory, the final name and the node (nil if
// it does not exist). Symlinks in non-final components are always followed; the final one
// only if followFinal.
func (f *fsModel) resolve(path string, followFinal bool, depth int) (parent *inode, name string, node *inode, errno int) {
	if depth > 40 {
		return nil, "", nil, eLOOP
	}
	if path == "" {
		return nil, "", nil, eNOENT
	}
	if !strings.HasPrefix(path, "/") {
		path = f.cwd + "/" + path
	}
	segs := []string{}
	for _, s := range strings.Split(path, "/") {
		if s == "" || s == "." {
			continue
		}
		segs = append(segs, s)
	}
	trailingSlash := strings.HasSuffix(path, "/") && len(segs) > 0
	// stack of directories for ".."
	stack := []*inode{f.root}
	cur := f.root
	if len(segs) == 0 {
		return nil, "/", f.root, 0
	}
	for i, seg := range segs {
		last := i == len(segs)-1
		if cur.kind != inoDir {
			return nil, "", nil, eNOTDIR
		}
		if seg == ".." {
			if len(stack) > 1 {
				stack = stack[:len(stack)-1]
			}
			cur = stack[len(stack)-1]
			if last {
				return nil, "..", cur, 0
			}
			continue
		}
		nx, ok := cur.entries[seg]
		if !ok {
			if last {
				return cur, seg, nil, 0
			}
			return nil, "", nil, eNOENT
		}
		if nx.kind == inoLink && (!last || followFinal || trailingSlash) {
			// expand the link relative to the directory we are in
			dirPath := f.pathOf(stack)
			rest := strings.Join(segs[i+1:], "/")
			t := nx.target
			var np string
			if strings.HasPrefix(t, "/") {
				np = t
			} else {
				np = dirPath + "/" + t
			}
			if rest != "" {
				np += "/" + rest
			}
			return f.resolve(np, followFinal, depth+1)
		}
		if last {
			if trailingSlash && nx.kind != inoDir {
				return nil, "", nil, eNOTDIR
			}
			return cur, seg, nx, 0
		}
		stack = append(stack, nx)
		cur = nx
	}
	return nil, "", nil, eNOENT
}

// pathOf reconstructs an absolute path for a directory stack (by searching names).
func (f *fsModel) pathOf(stack []*inode) string {
	p := ""
	for i := 1; i < len(stack); i++ {
		name := "?"
		for n, c := range stack[i-1].entries {
			if c == stack[i] {
				name = n
				break
			}
		}
		p += "/" + name
	}
	if p == "" {
		return "/"
	}
	return p
}

// ---- error values ----

func (e *Engine) errnoValue(errno int) Value {
	sp := e.Prog.ImportedPackage("syscall")
	if sp == nil {
		e.unsupported("syscall package not loaded")
	}
	t := sp.Type("Errno").Object().Type()
	return Iface{T: t, V: smt.Const(64, uint64(errno))}
}

func (e *Engine) pathError(op, path string, errno int) Value {
	fp := e.Prog.ImportedPackage("io/fs")
	t := fp.Type("PathError").Object().Type()
	var cell Value = Struct{mkStr(op), mkStr(path), e.errnoValue(errno)}
	return Iface{T: types.NewPointer(t), V: &cell}
}

func (e *Engine) linkError(op, oldp, newp string, errno int) Value {
	op2 := e.Prog.ImportedPackage("os")
	t := op2.Type("LinkError").Object().Type()
	var cell Value = Struct{mkStr(op), mkStr(oldp), mkStr(newp), e.errnoValue(errno)}
	return Iface{T: types.NewPointer(t), V: &cell}
}

func (e *Engine) osErrClosed() Value {
	fp := e.Prog.ImportedPackage("io/fs")
	return *e.globals[fp.Var("ErrClosed")]
}

// ---- FileInfo ----

func structFieldIndex(t types.Type, name string) int {
	st := t.Underlying().(*types.Struct)
	for i := 0; i < st.NumFields(); i++ {
		if st.Field(i).Name() == name {
			return i
		}
	}
	panic("no field " + name + " in " + t.String())
}

const (
	modeDir     = 1 << 31
	modeSymlink = 1 << 27
)

func (e *Engine) fileInfo(name string, n *inode) Value {
	op := e.Prog.ImportedPackage("os")
	t := op.Type("fileStat").Object().Type()
	sv := zero(t).(Struct)
	sv[structFieldIndex(t, "name")] = mkStr(name)
	size := int64(len(n.data))
	if n.kind == inoLink {
		size = int64(len(n.target))
	}
	if n.kind == inoDir {
		size = 4096
	}
	sv[structFieldIndex(t, "size")] = intC(size)
	mode := uint64(n.mode)
	switch n.kind {
	case inoDir:
		mode |= modeDir
	case inoLink:
		mode |= modeSymlink
	}
	sv[structFieldIndex(t, "mode")] = smt.Const(32, mode)
	if n.mtime != nil {
		sv[structFieldIndex(t, "modTime")] = n.mtime
	}
	// sys.Ino distinguishes files for os.SameFile
	sysIdx := structFieldIndex(t, "sys")
	if sysT, ok := t.Underlying().(*types.Struct).Field(sysIdx).Type().Underlying().(*types.Struct); ok {
		sys := sv[sysIdx].(Struct)
		for i := 0; i < sysT.NumFields(); i++ {
			switch sysT.Field(i).Name() {
			case "Ino":
				sys[i] = smt.Const(64, uint64(n.id))
			case "Nlink":
				sys[i] = smt.Const(64, uint64(n.nlink))
			}
		}
	}
	var cell Value = sv
	return Iface{T: types.NewPointer(t), V: &cell}
}

// ---- *os.File ----

func (e *Engine) newFile(of *openFile) Value {
	p := e.newZeroPtr("os", "File").(*Value)
	e.side[p] = of
	return p
}

func (e *Engine) fileOf(v Value, op string) (*openFile, Value) {
	p, _ := v.(*Value)
	if p == nil {
		fp := e.Prog.ImportedPackage("os")
		return nil, *e.globals[fp.Var("ErrInvalid")]
	}
	of, ok := e.side[p].(*openFile)
	if !ok {
		e.unsupported("os.File not created by the model")
	}
	if of.closed {
		return nil, e.pathErrorV(op, of.name, e.osErrClosed())
	}
	return of, nil
}

func (e *Engine) pathErrorV(op, path string, err Value) Value {
	fp := e.Prog.ImportedPackage("io/fs")
	t := fp.Type("PathError").Object().Type()
	var cell Value = Struct{mkStr(op), mkStr(path), err}
	return Iface{T: types.NewPointer(t), V: &cell}
}

func (e *Engine) ioEOF() Value {
	iop := e.Prog.ImportedPackage("io")
	return *e.globals[iop.Var("EOF")]
}

func (e *Engine) openFileModel(name string, flag int64, perm uint32) (Value, Value) {
	f := e.fs()
	follow := true
	parent, base, node, errno := f.resolve(name, follow, 0)
	if errno != 0 {
		return nil, e.pathError("open", name, errno)
	}
	if node == nil {
		if flag&oCREATE == 0 {
			return nil, e.pathError("open", name, eNOENT)
		}
		if parent == nil || parent.kind != inoDir {
			return nil, e.pathError("open", name, eNOENT)
		}
		f.mutation(e, "create "+name)
		node = f.newInode(inoFile, perm&0o777&^0o022)
		parent.entries[base] = node
	} else {
		if flag&oCREATE != 0 && flag&oEXCL != 0 {
			return nil, e.pathError("open", name, eEXIST)
		}
		if node.kind == inoDir && flag&(oWRONLY|oRDWR) != 0 {
			return nil, e.pathError("open", name, eISDIR)
		}
		if flag&oTRUNC != 0 && node.kind == inoFile && len(node.data) > 0 {
			f.mutation(e, "truncate "+name)
			node.data = nil
		}
	}
	of := &openFile{ino: node, name: name, flags: flag}
	return e.newFile(of), nil
}

func (e *Engine) setupOSGlobals(pkg *ssa.Package) {
	fp := e.Prog.ImportedPackage("io/fs")
	if fp == nil {
		return
	}
	cp := func(dst, src string) {
		g := pkg.Var(dst)
		s := fp.Var(src)
		if g != nil && s != nil {
			*e.globals[g] = *e.globals[s]
			e.okGlobal(g)
		}
	}
	cp("ErrInvalid", "ErrInvalid")
	cp("ErrPermission", "ErrPermission")
	cp("ErrExist", "ErrExist")
	cp("ErrNotExist", "ErrNotExist")
	cp("ErrClosed", "ErrClosed")
	if g := pkg.Var("Args"); g != nil {
		e.okGlobal(g)
	}
	for _, n := range []string{"ErrNoDeadline", "ErrDeadlineExceeded", "ErrProcessDone"} {
		if g := pkg.Var(n); g != nil {
			*e.globals[g] = e.mkError(mkStr("os: "+n), nil)
			e.okGlobal(g)
		}
	}
}

func (e *Engine) okGlobal(g *ssa.Global) {
	if e.okGlobals == nil {
		e.okGlobals = map[*ssa.Global]bool{}
	}
	e.okGlobals[g] = true
}

func boolErr(ok bool) *smt.Term { return smt.B(ok) }

func registerFS(m map[string]modelFn) {
	str := func(fr *frame, v Value) string { return fr.e.concStr(v, "path") }
	nilErr := Iface{}

	statLike := func(follow bool, op string) modelFn {
		return func(fr *frame, a []Value) Value {
			e := fr.e
			name := str(fr, a[0])
			_, base, node, errno := e.fs().resolve(name, follow, 0)
			if errno != 0 {
				return Tuple{Iface{}, e.pathError(op, name, errno)}
			}
			if node == nil {
				return Tuple{Iface{}, e.pathError(op, name, eNOENT)}
			}
			b := base
			if i := strings.LastIndex(strings.TrimRight(name, "/"), "/"); i >= 0 {
				b = strings.TrimRight(name, "/")[i+1:]
			} else if name != "" {
				b = name
			}
			_ = base
			return Tuple{e.fileInfo(b, node), nilErr}
		}
	}
	m["os.Stat"] = statLike(true, "stat")
	m["os.Lstat"] = statLike(false, "lstat")
	m["os.OpenFile"] = func(fr *frame, a []Value) Value {
		f, err := fr.e.openFileModel(str(fr, a[0]), fr.e.concInt(a[1]), uint32(fr.e.concInt(a[2])))
		if err != nil {
			return Tuple{(*Value)(nil), err}
		}
		return Tuple{f, nilErr}
	}
	m["os.Getwd"] = func(fr *frame, a []Value) Value { return Tuple{mkStr(fr.e.fs().cwd), nilErr} }
	m["os.Chdir"] = func(fr *frame, a []Value) Value {
		e := fr.e
		name := str(fr, a[0])
		_, _, node, errno := e.fs().resolve(name, true, 0)
		if errno != 0 || node == nil {
			return e.pathError("chdir", name, eNOENT)
		}
		if node.kind != inoDir {
			return e.pathError("chdir", name, eNOTDIR)
		}
		if !strings.HasPrefix(name, "/") {
			name = e.fs().cwd + "/" + name
		}
		e.fs().cwd = name
		return nilErr
	}
	m["os.TempDir"] = func(fr *frame, a []Value) Value { return mkStr("/tmp") }
	m["os.Getenv"] = func(fr *frame, a []Value) Value { return Str{} }
	m["os.LookupEnv"] = func(fr *frame, a []Value) Value { return Tuple{Str{}, smt.False} }
	// os/user: the account database is outside the model; look-ups (best effort in archive/tar) fail
	m["os/user.LookupId"] = func(fr *frame, a []Value) Value {
		return Tuple{(*Value)(nil), fr.e.mkError(mkStr("user: unknown userid (model)"), nil)}
	}
	m["os/user.LookupGroupId"] = func(fr *frame, a []Value) Value {
		return Tuple{(*Value)(nil), fr.e.mkError(mkStr("user: unknown groupid (model)"), nil)}
	}
	m["os.UserHomeDir"] = func(fr *frame, a []Value) Value { return Tuple{mkStr("/home/user"), nilErr} }
	m["os.Getpid"] = func(fr *frame, a []Value) Value { return intC(4242) }
	m["os.Mkdir"] = func(fr *frame, a []Value) Value {
		e := fr.e
		name := str(fr, a[0])
		perm := uint32(e.concInt(a[1]))
		parent, base, node, errno := e.fs().resolve(name, false, 0)
		if errno != 0 {
			return e.pathError("mkdir", name, errno)
		}
		if node != nil {
			return e.pathError("mkdir", name, eEXIST)
		}
		if parent == nil {
			return e.pathError("mkdir", name, eNOENT)
		}
		e.fs().mutation(e, "mkdir "+name)
		parent.entries[base] = e.fs().newInode(inoDir, perm&0o777&^0o022)
		return nilErr
	}
	m["os.Remove"] = func(fr *frame, a []Value) Value {
		e := fr.e
		name := str(fr, a[0])
		parent, base, node, errno := e.fs().resolve(name, false, 0)
		if errno != 0 {
			return e.pathError("remove", name, errno)
		}
		if node == nil || parent == nil {
			return e.pathError("remove", name, eNOENT)
		}
		if node.kind == inoDir && len(node.entries) > 0 {
			return e.pathError("remove", name, eNOTEMPTY)
		}
		e.fs().mutation(e, "remove "+name)
		delete(parent.entries, base)
		node.nlink--
		return nilErr
	}
	m["os.RemoveAll"] = func(fr *frame, a []Value) Value {
		e := fr.e
		name := str(fr, a[0])
		parent, base, node, errno := e.fs().resolve(name, false, 0)
		if errno != 0 || node == nil || parent == nil {
			return nilErr
		}
		e.fs().mutation(e, "removeall "+name)
		delete(parent.entries, base)
		return nilErr
	}
	m["os.Rename"] = func(fr *frame, a []Value) Value {
		e := fr.e
		oldp, newp := str(fr, a[0]), str(fr, a[1])
		op, ob, on, errno := e.fs().resolve(oldp, false, 0)
		if errno != 0 || on == nil || op == nil {
			if errno == 0 {
				errno = eNOENT
			}
			return e.linkError("rename", oldp, newp, errno)
		}
		np, nb, nn, errno := e.fs().resolve(newp, false, 0)
		if errno != 0 || np == nil {
			if errno == 0 {
				errno = eNOENT
			}
			return e.linkError("rename", oldp, newp, errno)
		}
		if nn != nil {
			if nn.kind == inoDir && on.kind != inoDir {
				return e.linkError("rename", oldp, newp, eISDIR)
			}
			if nn.kind != inoDir && on.kind == inoDir {
				return e.linkError("rename", oldp, newp, eNOTDIR)
			}
			if nn.kind == inoDir && len(nn.entries) > 0 {
				return e.linkError("rename", oldp, newp, eNOTEMPTY)
			}
		}
		e.fs().mutation(e, "rename "+oldp+" -> "+newp)
		if nn == on {
			return nilErr
		}
		delete(op.entries, ob)
		np.entries[nb] = on
		return nilErr
	}
	m["os.Link"] = func(fr *frame, a []Value) Value {
		e := fr.e
		oldp, newp := str(fr, a[0]), str(fr, a[1])
		_, _, on, errno := e.fs().resolve(oldp, false, 0) // linux link(2) does not follow a final symlink
		if errno != 0 || on == nil {
			if errno == 0 {
				errno = eNOENT
			}
			return e.linkError("link", oldp, newp, errno)
		}
		if on.kind == inoDir {
			return e.linkError("link", oldp, newp, ePERM)
		}
		np, nb, nn, errno := e.fs().resolve(newp, false, 0)
		if errno != 0 || np == nil {
			if errno == 0 {
				errno = eNOENT
			}
			return e.linkError("link", oldp, newp, errno)
		}
		if nn != nil {
			return e.linkError("link", oldp, newp, eEXIST)
		}
		e.fs().mutation(e, "link "+oldp+" <- "+newp)
		np.entries[nb] = on
		on.nlink++
		return nilErr
	}
	m["os.Symlink"] = func(fr *frame, a []Value) Value {
		e := fr.e
		target, newp := str(fr, a[0]), str(fr, a[1])
		np, nb, nn, errno := e.fs().resolve(newp, false, 0)
		if errno != 0 || np == nil {
			if errno == 0 {
				errno = eNOENT
			}
			return e.linkError("symlink", target, newp, errno)
		}
		if nn != nil {
			return e.linkError("symlink", target, newp, eEXIST)
		}
		e.fs().mutation(e, "symlink "+newp+" -> "+target)
		n := e.fs().newInode(inoLink, 0o777)
		n.target = target
		np.entries[nb] = n
		return nilErr
	}
	m["os.Readlink"] = func(fr *frame, a []Value) Value {
		e := fr.e
		name := str(fr, a[0])
		_, _, node, errno := e.fs().resolve(name, false, 0)
		if errno != 0 || node == nil {
			if errno == 0 {
				errno = eNOENT
			}
			return Tuple{Str{}, e.pathError("readlink", name, errno)}
		}
		if node.kind != inoLink {
			return Tuple{Str{}, e.pathError("readlink", name, eINVAL)}
		}
		return Tuple{mkStr(node.target), nilErr}
	}
	m["os.Chmod"] = func(fr *frame, a []Value) Value {
		e := fr.e
		name := str(fr, a[0])
		mode := uint32(e.concInt(a[1]))
		_, _, node, errno := e.fs().resolve(name, true, 0)
		if errno != 0 || node == nil {
			if errno == 0 {
				errno = eNOENT
			}
			return e.pathError("chmod", name, errno)
		}
		e.fs().mutation(e, "chmod "+name)
		node.mode = mode & 0o777
		return nilErr
	}
	m["os.Chtimes"] = func(fr *frame, a []Value) Value {
		e := fr.e
		name := str(fr, a[0])
		_, _, node, errno := e.fs().resolve(name, true, 0)
		if errno != 0 || node == nil {
			if errno == 0 {
				errno = eNOENT
			}
			return e.pathError("chtimes", name, errno)
		}
		e.fs().mutation(e, "chtimes "+name)
		if st, ok := a[2].(Struct); ok {
			node.mtime = append(Struct(nil), st...)
		}
		return nilErr
	}
	m["os.Lchown"] = func(fr *frame, a []Value) Value { return nilErr }
	m["os.Chown"] = func(fr *frame, a []Value) Value { return nilErr }
	mkTemp := func(dir bool) modelFn {
		return func(fr *frame, a []Value) Value {
			e := fr.e
			d := str(fr, a[0])
			pattern := str(fr, a[1])
			if d == "" {
				d = "/tmp"
			}
			f := e.fs()
			for {
				f.nextTmp++
				nm := pattern
				suffix := fmt.Sprintf("%06d", f.nextTmp)
				if i := strings.LastIndex(pattern, "*"); i >= 0 {
					nm = pattern[:i] + suffix + pattern[i+1:]
				} else {
					nm = pattern + suffix
				}
				full := strings.TrimRight(d, "/") + "/" + nm
				parent, base, node, errno := f.resolve(full, false, 0)
				if errno != 0 || parent == nil {
					if dir {
						return Tuple{Str{}, e.pathError("mkdirtemp", full, eNOENT)}
					}
					return Tuple{(*Value)(nil), e.pathError("createtemp", full, eNOENT)}
				}
				if node != nil {
					continue
				}
				if dir {
					f.mutation(e, "mkdirtemp "+full)
					parent.entries[base] = f.newInode(inoDir, 0o700)
					return Tuple{mkStr(full), nilErr}
				}
				f.mutation(e, "createtemp "+full)
				n := f.newInode(inoFile, 0o600)
				parent.entries[base] = n
				return Tuple{e.newFile(&openFile{ino: n, name: full, flags: oRDWR}), nilErr}
			}
		}
	}
	m["os.CreateTemp"] = mkTemp(false)
	m["os.MkdirTemp"] = mkTemp(true)
	m["os.ReadDir"] = func(fr *frame, a []Value) Value {
		e := fr.e
		name := str(fr, a[0])
		_, _, node, errno := e.fs().resolve(name, true, 0)
		if errno != 0 || node == nil {
			if errno == 0 {
				errno = eNOENT
			}
			return Tuple{[]Value(nil), e.pathError("open", name, errno)}
		}
		if node.kind != inoDir {
			return Tuple{[]Value(nil), e.pathError("readdirent", name, eNOTDIR)}
		}
		return Tuple{e.dirEntries(node), nilErr}
	}

	// ---- *os.File methods ----
	m["(*os.File).Name"] = func(fr *frame, a []Value) Value {
		p, _ := a[0].(*Value)
		of, _ := fr.e.side[p].(*openFile)
		if of == nil {
			return Str{}
		}
		return mkStr(of.name)
	}
	m["(*os.File).Close"] = func(fr *frame, a []Value) Value {
		of, err := fr.e.fileOf(a[0], "close")
		if err != nil {
			return err
		}
		of.closed = true
		return nilErr
	}
	m["(*os.File).Sync"] = func(fr *frame, a []Value) Value {
		_, err := fr.e.fileOf(a[0], "sync")
		if err != nil {
			return err
		}
		return nilErr
	}
	m["(*os.File).Stat"] = func(fr *frame, a []Value) Value {
		of, err := fr.e.fileOf(a[0], "stat")
		if err != nil {
			return Tuple{Iface{}, err}
		}
		b := of.name
		if i := strings.LastIndex(b, "/"); i >= 0 {
			b = b[i+1:]
		}
		return Tuple{fr.e.fileInfo(b, of.ino), nilErr}
	}
	m["(*os.File).Chmod"] = func(fr *frame, a []Value) Value {
		e := fr.e
		of, err := e.fileOf(a[0], "chmod")
		if err != nil {
			return err
		}
		e.fs().mutation(e, "fchmod "+of.name)
		of.ino.mode = uint32(e.concInt(a[1])) & 0o777
		return nilErr
	}
	m["(*os.File).Read"] = func(fr *frame, a []Value) Value {
		e := fr.e
		of, err := e.fileOf(a[0], "read")
		if err != nil {
			return Tuple{intC(0), err}
		}
		if of.ino.kind == inoDir {
			return Tuple{intC(0), e.pathError("read", of.name, eISDIR)}
		}
		buf, _ := a[1].([]Value)
		if len(buf) == 0 {
			return Tuple{intC(0), nilErr}
		}
		if of.pos >= len(of.ino.data) {
			return Tuple{intC(0), e.ioEOF()}
		}
		n := copyTerms(e, buf, of.ino.data[of.pos:])
		of.pos += n
		return Tuple{intC(int64(n)), nilErr}
	}
	m["(*os.File).ReadAt"] = func(fr *frame, a []Value) Value {
		e := fr.e
		of, err := e.fileOf(a[0], "read")
		if err != nil {
			return Tuple{intC(0), err}
		}
		buf, _ := a[1].([]Value)
		off := int(e.concInt(a[2]))
		if off >= len(of.ino.data) {
			return Tuple{intC(0), e.ioEOF()}
		}
		n := copyTerms(e, buf, of.ino.data[off:])
		if n < len(buf) {
			return Tuple{intC(int64(n)), e.ioEOF()}
		}
		return Tuple{intC(int64(n)), nilErr}
	}
	write := func(fr *frame, fv Value, data []*smt.Term) Value {
		e := fr.e
		of, err := e.fileOf(fv, "write")
		if err != nil {
			return Tuple{intC(0), err}
		}
		if of.flags&(oWRONLY|oRDWR) == 0 {
			return Tuple{intC(0), e.pathError("write", of.name, eBADF)}
		}
		if len(data) == 0 {
			return Tuple{intC(0), nilErr}
		}
		f := e.fs()
		// a write of n bytes is two crash steps: some prefix, then all
		if f.armed && len(data) > 1 {
			f.steps++
			if e.choose(2, "crash") == 1 {
				f.armed = false
				k := 1 + e.choose(len(data)-1, "partial")
				fileWrite(of, data[:k])
				if len(e.events) < 200 {
					e.events = append(e.events, fmt.Sprintf("CRASH during write of %d bytes to %s after %d bytes", len(data), of.name, k))
				}
				e.abort("crash", fmt.Sprintf("during write %s (%d of %d bytes)", of.name, k, len(data)))
			}
		}
		f.mutation(e, fmt.Sprintf("write %s (%d bytes)", of.name, len(data)))
		fileWrite(of, data)
		return Tuple{intC(int64(len(data))), nilErr}
	}
	m["(*os.File).Write"] = func(fr *frame, a []Value) Value {
		buf, _ := a[1].([]Value)
		return write(fr, a[0], valsToStr(buf).Bytes())
	}
	m["(*os.File).WriteString"] = func(fr *frame, a []Value) Value {
		return write(fr, a[0], a[1].(Str).Bytes())
	}
	m["(*os.File).ReadFrom"] = func(fr *frame, a []Value) Value {
		// generic copy loop: read 32 KiB chunks from the reader and write them
		e := fr.e
		r := a[1].(Iface)
		total := int64(0)
		for iter := 0; ; iter++ {
			if iter > 10000 {
				e.abort("bound", "ReadFrom: reader never ends")
			}
			buf := make([]Value, 32*1024)
			for i := range buf {
				buf[i] = byteConst[0]
			}
			res, ok := e.callMethod(fr, r.T, r.V, "Read", buf)
			if !ok {
				e.unsupported("ReadFrom: reader without Read")
			}
			tup := res.(Tuple)
			n := int(e.concInt(tup[0]))
			if n > 0 {
				wres := write(fr, a[0], valsToStr(buf[:n]).Bytes()).(Tuple)
				if werr, _ := wres[1].(Iface); werr.T != nil {
					return Tuple{intC(total), werr}
				}
				total += int64(n)
			}
			if rerr, _ := tup[1].(Iface); rerr.T != nil {
				if e.isEOF(rerr) {
					return Tuple{intC(total), nilErr}
				}
				return Tuple{intC(total), rerr}
			}
		}
	}
	m["(*os.File).WriteTo"] = func(fr *frame, a []Value) Value {
		e := fr.e
		of, err := e.fileOf(a[0], "read")
		if err != nil {
			return Tuple{intC(0), err}
		}
		w := a[1].(Iface)
		rest := of.ino.data[min(of.pos, len(of.ino.data)):]
		if len(rest) == 0 {
			return Tuple{intC(0), nilErr}
		}
		vals := make([]Value, len(rest))
		for i, t := range rest {
			vals[i] = t
		}
		res, ok := e.callMethod(fr, w.T, w.V, "Write", vals)
		if !ok {
			e.unsupported("WriteTo: writer without Write")
		}
		tup := res.(Tuple)
		n := int(e.concInt(tup[0]))
		of.pos += n
		return Tuple{intC(int64(n)), tup[1]}
	}
	m["(*os.File).Seek"] = func(fr *frame, a []Value) Value {
		e := fr.e
		of, err := e.fileOf(a[0], "seek")
		if err != nil {
			return Tuple{intC(0), err}
		}
		off := int(e.concInt(a[1]))
		switch e.concInt(a[2]) {
		case 0:
			of.pos = off
		case 1:
			of.pos += off
		case 2:
			of.pos = len(of.ino.data) + off
		}
		if of.pos < 0 {
			of.pos = 0
			return Tuple{intC(0), e.pathError("seek", of.name, eINVAL)}
		}
		return Tuple{intC(int64(of.pos)), nilErr}
	}
	m["(*os.File).Readdirnames"] = func(fr *frame, a []Value) Value {
		e := fr.e
		of, err := e.fileOf(a[0], "readdirent")
		if err != nil {
			return Tuple{[]Value(nil), err}
		}
		if of.ino.kind != inoDir {
			return Tuple{[]Value(nil), e.pathError("readdirent", of.name, eNOTDIR)}
		}
		var names []string
		for n := range of.ino.entries {
			names = append(names, n)
		}
		sort.Strings(names)
		out := make([]Value, 0, len(names))
		for _, n := range names[min(of.dirPos, len(names)):] {
			out = append(out, mkStr(n))
		}
		of.dirPos = len(names)
		return Tuple{out, nilErr}
	}
	m["(*os.File).ReadDir"] = func(fr *frame, a []Value) Value {
		e := fr.e
		of, err := e.fileOf(a[0], "readdirent")
		if err != nil {
			return Tuple{[]Value(nil), err}
		}
		if of.ino.kind != inoDir {
			return Tuple{[]Value(nil), e.pathError("readdirent", of.name, eNOTDIR)}
		}
		if of.dirPos > 0 {
			return Tuple{[]Value(nil), nilErr}
		}
		of.dirPos = 1
		return Tuple{e.dirEntries(of.ino), nilErr}
	}
	m["os.SameFile"] = func(fr *frame, a []Value) Value {
		e := fr.e
		id := func(v Value) *smt.Term {
			fi := v.(Iface)
			p := fi.V.(*Value)
			sv := (*p).(Struct)
			t := deref(fi.T)
			sys := sv[structFieldIndex(t, "sys")].(Struct)
			st := t.Underlying().(*types.Struct).Field(structFieldIndex(t, "sys")).Type().Underlying().(*types.Struct)
			for i := 0; i < st.NumFields(); i++ {
				if st.Field(i).Name() == "Ino" {
					return sys[i].(*smt.Term)
				}
			}
			e.unsupported("SameFile")
			return nil
		}
		return smt.Eq(id(a[0]), id(a[1]))
	}
	m["os.IsPathSeparator"] = func(fr *frame, a []Value) Value { return smt.Eq(term(a[0]), byteConst['/']) }
}

func fileWrite(of *openFile, data []*smt.Term) {
	if of.flags&oAPPEND != 0 {
		of.pos = len(of.ino.data)
	}
	nd := append([]*smt.Term(nil), of.ino.data...)
	for len(nd) < of.pos {
		nd = append(nd, byteConst[0])
	}
	for i, b := range data {
		if of.pos+i < len(nd) {
			nd[of.pos+i] = b
		} else {
			nd = append(nd, b)
		}
	}
	of.ino.data = nd
	of.pos += len(data)
}

func copyTerms(e *Engine, dst []Value, src []*smt.Term) int {
	n := len(dst)
	if len(src) < n {
		n = len(src)
	}
	for i := 0; i < n; i++ {
		e.store(&dst[i], src[i])
	}
	return n
}

// dirEntries returns []fs.DirEntry sorted by name.
func (e *Engine) dirEntries(dir *inode) []Value {
	var names []string
	for n := range dir.entries {
		names = append(names, n)
	}
	sort.Strings(names)
	fp := e.Prog.ImportedPackage("io/fs")
	dt := fp.Type("dirInfo").Object().Type()
	out := make([]Value, 0, len(names))
	for _, n := range names {
		fi := e.fileInfo(n, dir.entries[n])
		out = append(out, Iface{T: dt, V: Struct{fi}})
	}
	return out
}


// snapshot captures the tree now; the returned function renders it under a solver model
// (symbolic file bytes are evaluated with the counterexample's input values).
func (f *fsModel) snapshot() func(model map[string]uint64) []FSEntry {
	type rec struct {
		path   string
		kind   int
		mode   uint32
		data   []*smt.Term
		target string
	}
	var recs []rec
	var walk func(p string, n *inode)
	walk = func(p string, n *inode) {
		switch n.kind {
		case inoDir:
			recs = append(recs, rec{path: p, kind: inoDir, mode: n.mode})
			var names []string
			for nm := range n.entries {
				names = append(names, nm)
			}
			sort.Strings(names)
			for _, nm := range names {
				walk(strings.TrimRight(p, "/")+"/"+nm, n.entries[nm])
			}
		case inoFile:
			recs = append(recs, rec{path: p, kind: inoFile, mode: n.mode, data: append([]*smt.Term(nil), n.data...)})
		case inoLink:
			recs = append(recs, rec{path: p, kind: inoLink, target: n.target})
		}
	}
	walk("/", f.root)
	return func(model map[string]uint64) []FSEntry {
		var out []FSEntry
		for _, r := range recs {
			en := FSEntry{Path: r.path, Mode: r.mode, Target: r.target}
			switch r.kind {
			case inoDir:
				en.Kind = "dir"
			case inoFile:
				en.Kind = "file"
				en.Data = make([]byte, len(r.data))
				for i, t := range r.data {
					en.Data[i] = byte(smt.Eval(t, model))
				}
			default:
				en.Kind = "link"
			}
			out = append(out, en)
		}
		return out
	}
}
