package exec

import (
	"bytes"
	"encoding/base64"
	"encoding/json"
	"fmt"
	"go/types"
	"reflect"
	"strconv"
	"strings"
	"unicode/utf8"

	"symgo/smt"
)

// JSON model. Marshal produces the real JSON text of encoding/json (HTML-escaping
// included) wherever the content is concrete; symbolic string bytes must be "plain"
// (no escaping needed) — otherwise the path ends as unsupported. Every produced document
// (and every sub-value span) is remembered with its abstract value so that Unmarshal of
// exactly those bytes needs no parsing; concrete bytes are parsed with the real
// encoding/json. Decoding symbolic bytes that were not produced by Marshal is unsupported.

const (
	jNull = iota
	jBool
	jNum
	jStr
	jArr
	jObj
	jRaw // verbatim bytes (json.RawMessage) whose structure is looked up lazily
)

type jval struct {
	kind    int
	b       *smt.Term
	num     *smt.Term // integer value (64-bit) when it came from a Go integer
	signed  bool
	numText string // textual number when parsed from concrete JSON
	str     Str
	arr     []*jval
	keys    []Str
	vals    []*jval
	raw     []*smt.Term
}

type jsonDoc struct {
	bytes []*smt.Term
	root  *jval
	bad   string // parse error text for concrete invalid documents
}

func (e *Engine) jsonRegister(bs []*smt.Term, root *jval) {
	e.jsonReg = append(e.jsonReg, &jsonDoc{bytes: bs, root: root})
}

func (e *Engine) jsonLookup(bs []*smt.Term) *jsonDoc {
	for i := len(e.jsonReg) - 1; i >= 0; i-- {
		if sameTerms(e.jsonReg[i].bytes, bs) {
			return e.jsonReg[i]
		}
	}
	return nil
}

type jsonUnsupported struct{ msg string }

// ---- Go value -> abstract value ----

func (e *Engine) jsonTag(f *types.Var, tag string) (name string, omitempty, skip, asString bool) {
	name = f.Name()
	jt, ok := reflect.StructTag(tag).Lookup("json")
	if !ok {
		return name, false, false, false
	}
	if jt == "-" {
		return "", false, true, false
	}
	parts := strings.Split(jt, ",")
	if parts[0] != "" {
		name = parts[0]
	}
	for _, o := range parts[1:] {
		switch o {
		case "omitempty":
			omitempty = true
		case "string":
			asString = true
		}
	}
	return
}

func isEmptyValue(v Value) bool {
	switch x := v.(type) {
	case *smt.Term:
		if x.IsConst() {
			if x.S.K == smt.KFP {
				return x.Float() == 0
			}
			return x.Val == 0
		}
		return false
	case Str:
		return x.Len() == 0
	case []Value:
		return len(x) == 0
	case Array:
		return len(x) == 0
	case *Map:
		return x == nil || len(x.ents) == 0
	case *Value:
		return x == nil
	case Iface:
		return x.T == nil
	case nil:
		return true
	}
	return false
}

func isRawMessage(t types.Type) bool {
	n, ok := t.(*types.Named)
	return ok && n.Obj().Name() == "RawMessage" && n.Obj().Pkg() != nil && n.Obj().Pkg().Path() == "encoding/json"
}

func (e *Engine) toJ(t types.Type, v Value) *jval {
	if isRawMessage(t) {
		sl, _ := v.([]Value)
		if sl == nil {
			return &jval{kind: jNull}
		}
		return &jval{kind: jRaw, raw: valsToStr(sl).Bytes()}
	}
	if n, ok := t.(*types.Named); ok {
		if hasMethod(e.Prog, t, "MarshalJSON") != nil || hasMethod(e.Prog, t, "MarshalText") != nil {
			e.unsupported("JSON model: custom marshaler on " + n.String())
		}
		if hasMethod(e.Prog, types.NewPointer(t), "MarshalJSON") != nil {
			// pointer-receiver marshalers apply only to addressable values; RawMessage handled above
		}
	}
	switch u := t.Underlying().(type) {
	case *types.Basic:
		switch {
		case u.Info()&types.IsBoolean != 0:
			return &jval{kind: jBool, b: v.(*smt.Term)}
		case u.Info()&types.IsInteger != 0:
			_, signed, _ := intInfo(u)
			x := v.(*smt.Term)
			if x.S.W < 64 {
				if signed {
					x = smt.Sext(x, 64)
				} else {
					x = smt.Zext(x, 64)
				}
			}
			return &jval{kind: jNum, num: x, signed: signed}
		case u.Info()&types.IsFloat != 0:
			x := v.(*smt.Term)
			if !x.IsConst() {
				e.unsupported("JSON model: symbolic float")
			}
			b, err := json.Marshal(x.Float())
			if err != nil {
				e.unsupported("JSON model: " + err.Error())
			}
			return &jval{kind: jNum, numText: string(b)}
		case u.Info()&types.IsString != 0:
			return &jval{kind: jStr, str: v.(Str)}
		}
	case *types.Pointer:
		p, _ := v.(*Value)
		if p == nil {
			return &jval{kind: jNull}
		}
		return e.toJ(u.Elem(), *p)
	case *types.Interface:
		i, _ := v.(Iface)
		if i.T == nil {
			return &jval{kind: jNull}
		}
		return e.toJ(i.T, i.V)
	case *types.Struct:
		sv := v.(Struct)
		j := &jval{kind: jObj}
		e.structToJ(u, sv, j)
		return j
	case *types.Slice:
		sl, _ := v.([]Value)
		if sl == nil {
			return &jval{kind: jNull}
		}
		if eb, ok := u.Elem().Underlying().(*types.Basic); ok && eb.Kind() == types.Uint8 {
			return &jval{kind: jStr, str: e.base64Encode(valsToStr(sl))}
		}
		j := &jval{kind: jArr, arr: []*jval{}}
		for _, el := range sl {
			j.arr = append(j.arr, e.toJ(u.Elem(), el))
		}
		return j
	case *types.Array:
		j := &jval{kind: jArr, arr: []*jval{}}
		for _, el := range v.(Array) {
			j.arr = append(j.arr, e.toJ(u.Elem(), el))
		}
		return j
	case *types.Map:
		m, _ := v.(*Map)
		if m == nil {
			return &jval{kind: jNull}
		}
		if !isString(u.Key()) {
			e.unsupported("JSON model: map with non-string key")
		}
		j := &jval{kind: jObj}
		// sort keys (forking on symbolic comparisons)
		ents := append([]*entry(nil), m.ents...)
		for i := 1; i < len(ents); i++ {
			for k := i; k > 0; k-- {
				if e.branch(strLess(ents[k].key.(Str), ents[k-1].key.(Str))) {
					ents[k], ents[k-1] = ents[k-1], ents[k]
				} else {
					break
				}
			}
		}
		for _, en := range ents {
			j.keys = append(j.keys, en.key.(Str))
			j.vals = append(j.vals, e.toJ(u.Elem(), en.val))
		}
		return j
	}
	e.unsupported("JSON model: cannot marshal " + t.String())
	return nil
}

func (e *Engine) structToJ(st *types.Struct, sv Struct, j *jval) {
	for i := 0; i < st.NumFields(); i++ {
		f := st.Field(i)
		name, omit, skip, asString := e.jsonTag(f, st.Tag(i))
		if skip {
			continue
		}
		if asString {
			e.unsupported("JSON model: ,string option")
		}
		_, tagged := reflect.StructTag(st.Tag(i)).Lookup("json")
		if f.Embedded() && (!tagged || strings.HasPrefix(reflect.StructTag(st.Tag(i)).Get("json"), ",")) {
			ft := f.Type()
			fv := sv[i]
			if pt, ok := ft.Underlying().(*types.Pointer); ok {
				p, _ := fv.(*Value)
				if p == nil {
					continue
				}
				ft, fv = pt.Elem(), *p
			}
			if est, ok := ft.Underlying().(*types.Struct); ok {
				e.structToJ(est, fv.(Struct), j)
				continue
			}
		}
		if !f.Exported() {
			continue
		}
		if omit && isEmptyValue(sv[i]) {
			continue
		}
		j.keys = append(j.keys, mkStr(name))
		j.vals = append(j.vals, e.toJ(f.Type(), sv[i]))
	}
}

func (e *Engine) base64Encode(s Str) Str {
	if c, ok := s.Concrete(); ok {
		return mkStr(base64.StdEncoding.EncodeToString([]byte(c)))
	}
	e.unsupported("JSON model: base64 of symbolic bytes")
	return Str{}
}

// ---- abstract value -> text ----

type jsonWriter struct {
	e      *Engine
	out    []*smt.Term
	indent string
	prefix string
	html   bool
}

func (w *jsonWriter) lit(s string) {
	for i := 0; i < len(s); i++ {
		w.out = append(w.out, byteConst[s[i]])
	}
}

func (w *jsonWriter) newline(depth int) {
	if w.indent == "" && w.prefix == "" {
		return
	}
	w.lit("\n" + w.prefix + strings.Repeat(w.indent, depth))
}

func (w *jsonWriter) str(s Str) {
	w.lit(`"`)
	if c, ok := s.Concrete(); ok {
		var buf bytes.Buffer
		enc := json.NewEncoder(&buf)
		enc.SetEscapeHTML(w.html)
		enc.Encode(c)
		t := strings.TrimSuffix(buf.String(), "\n")
		w.lit(t[1 : len(t)-1])
	} else {
		for i := 0; i < s.Len(); i++ {
			b := s.At(i)
			if b.IsConst() {
				c := byte(b.Val)
				if c >= 0x20 && c < 0x7f && c != '"' && c != '\\' && !(w.html && (c == '<' || c == '>' || c == '&')) {
					w.out = append(w.out, b)
					continue
				}
				w.e.unsupported("JSON model: mixed symbolic string with a byte that needs escaping")
			}
			plain := smt.AndN(smt.Ule(byteConst[0x20], b), smt.Ult(b, byteConst[0x7f]),
				smt.Not(smt.Eq(b, byteConst['"'])), smt.Not(smt.Eq(b, byteConst['\\'])))
			if w.html {
				plain = smt.AndN(plain, smt.Not(smt.Eq(b, byteConst['<'])), smt.Not(smt.Eq(b, byteConst['>'])), smt.Not(smt.Eq(b, byteConst['&'])))
			}
			if !w.e.branch(plain) {
				w.e.unsupported("JSON model: symbolic string byte that needs escaping (harness must restrict the alphabet)")
			}
			w.out = append(w.out, b)
		}
	}
	w.lit(`"`)
}

func (w *jsonWriter) val(j *jval, depth int) {
	start := len(w.out)
	switch j.kind {
	case jNull:
		w.lit("null")
	case jBool:
		if w.e.branch(j.b) {
			w.lit("true")
		} else {
			w.lit("false")
		}
	case jNum:
		if j.num != nil {
			t := j.num
			if !t.IsConst() {
				t = smt.Const(64, w.e.concretize(t))
			}
			if j.signed {
				w.lit(strconv.FormatInt(t.SInt(), 10))
			} else {
				w.lit(strconv.FormatUint(t.Val, 10))
			}
		} else {
			w.lit(j.numText)
		}
	case jStr:
		w.str(j.str)
	case jRaw:
		// RawMessage is compacted (and HTML-escaped) by the real encoder; we require it to be compact already
		if c, ok := mkStrB(j.raw).Concrete(); ok {
			var buf bytes.Buffer
			if err := json.Compact(&buf, []byte(c)); err != nil {
				w.e.unsupported("JSON model: invalid RawMessage")
			}
			if w.indent != "" || w.prefix != "" {
				var ib bytes.Buffer
				json.Indent(&ib, buf.Bytes(), w.prefix+strings.Repeat(w.indent, depth), w.indent)
				buf = ib
			}
			w.lit(buf.String())
		} else {
			if w.indent != "" || w.prefix != "" {
				// re-indent through the registered structure
				if d := w.e.jsonLookup(j.raw); d != nil && d.root != nil {
					w.val(d.root, depth)
					break
				}
				w.e.unsupported("JSON model: indenting a symbolic RawMessage of unknown structure")
			}
			w.out = append(w.out, j.raw...)
		}
	case jArr:
		w.lit("[")
		for i, el := range j.arr {
			if i > 0 {
				w.lit(",")
			}
			w.newline(depth + 1)
			w.val(el, depth+1)
		}
		if len(j.arr) > 0 {
			w.newline(depth)
		}
		w.lit("]")
	case jObj:
		w.lit("{")
		for i := range j.keys {
			if i > 0 {
				w.lit(",")
			}
			w.newline(depth + 1)
			w.str(j.keys[i])
			w.lit(":")
			if w.indent != "" || w.prefix != "" {
				w.lit(" ")
			}
			w.val(j.vals[i], depth+1)
		}
		if len(j.keys) > 0 {
			w.newline(depth)
		}
		w.lit("}")
	}
	if j.kind != jRaw {
		j.raw = append([]*smt.Term(nil), w.out[start:]...)
	}
	// every sub-value span is itself a known document (needed for RawMessage round trips)
	if j.kind == jObj || j.kind == jArr || j.kind == jStr {
		w.e.jsonRegister(j.raw, j)
	}
}

func (e *Engine) jsonMarshal(v Iface, prefix, indent string) []Value {
	var root *jval
	if v.T == nil {
		root = &jval{kind: jNull}
	} else {
		root = e.toJ(v.T, v.V)
	}
	w := &jsonWriter{e: e, prefix: prefix, indent: indent, html: true}
	w.val(root, 0)
	e.jsonRegister(w.out, root)
	out := make([]Value, len(w.out))
	for i, t := range w.out {
		out[i] = t
	}
	return out
}

// ---- text -> abstract value (concrete documents only) ----

func parseConcreteJSON(text string) (*jval, string) {
	dec := json.NewDecoder(strings.NewReader(text))
	dec.UseNumber()
	bs := []byte(text)
	var parse func() (*jval, error)
	skipWS := func(off int) int {
		for off < len(bs) && (bs[off] == ' ' || bs[off] == '\t' || bs[off] == '\n' || bs[off] == '\r' || bs[off] == ',' || bs[off] == ':') {
			off++
		}
		return off
	}
	span := func(start, end int) []*smt.Term {
		r := make([]*smt.Term, 0, end-start)
		for _, b := range bs[start:end] {
			r = append(r, byteConst[b])
		}
		return r
	}
	parse = func() (*jval, error) {
		start := skipWS(int(dec.InputOffset()))
		tok, err := dec.Token()
		if err != nil {
			return nil, err
		}
		var j *jval
		switch t := tok.(type) {
		case json.Delim:
			switch t {
			case '{':
				j = &jval{kind: jObj}
				for dec.More() {
					kt, err := dec.Token()
					if err != nil {
						return nil, err
					}
					ks, ok := kt.(string)
					if !ok {
						return nil, fmt.Errorf("invalid object key")
					}
					v, err := parse()
					if err != nil {
						return nil, err
					}
					j.keys = append(j.keys, mkStr(ks))
					j.vals = append(j.vals, v)
				}
				if _, err := dec.Token(); err != nil {
					return nil, err
				}
			case '[':
				j = &jval{kind: jArr, arr: []*jval{}}
				for dec.More() {
					v, err := parse()
					if err != nil {
						return nil, err
					}
					j.arr = append(j.arr, v)
				}
				if _, err := dec.Token(); err != nil {
					return nil, err
				}
			default:
				return nil, fmt.Errorf("unexpected delimiter")
			}
		case nil:
			j = &jval{kind: jNull}
		case bool:
			j = &jval{kind: jBool, b: smt.B(t)}
		case json.Number:
			j = &jval{kind: jNum, numText: string(t)}
		case string:
			j = &jval{kind: jStr, str: mkStr(t)}
		}
		j.raw = span(start, int(dec.InputOffset()))
		return j, nil
	}
	if !json.Valid(bs) {
		var x interface{}
		err := json.Unmarshal(bs, &x)
		if err == nil {
			err = fmt.Errorf("invalid JSON")
		}
		return nil, err.Error()
	}
	j, err := parse()
	if err != nil {
		return nil, err.Error()
	}
	return j, ""
}

// ---- abstract value -> Go value ----

func (e *Engine) jsonErr(msg string) Value { return e.mkError(mkStr("json: "+msg), nil) }

func foldEq(a, b string) bool { return strings.EqualFold(a, b) }

// fromJ assigns j to *dst of type t; returns a Go error value or nil.
func (e *Engine) fromJ(j *jval, t types.Type, dst *Value) Value {
	if j.kind == jRaw {
		d := e.jsonLookup(j.raw)
		if d == nil {
			if c, ok := mkStrB(j.raw).Concrete(); ok {
				root, bad := parseConcreteJSON(c)
				if bad != "" {
					return e.jsonErr(bad)
				}
				j = root
			} else {
				e.unsupported("JSON model: decoding symbolic bytes not produced by Marshal")
			}
		} else {
			j = d.root
		}
	}
	if isRawMessage(t) {
		raw := make([]Value, len(j.raw))
		for i, b := range j.raw {
			raw[i] = b
		}
		e.store(dst, raw)
		return nil
	}
	if n, ok := t.(*types.Named); ok {
		if hasMethod(e.Prog, types.NewPointer(t), "UnmarshalJSON") != nil || hasMethod(e.Prog, types.NewPointer(t), "UnmarshalText") != nil {
			e.unsupported("JSON model: custom unmarshaler on " + n.String())
		}
	}
	switch u := t.Underlying().(type) {
	case *types.Pointer:
		if j.kind == jNull {
			e.store(dst, (*Value)(nil))
			return nil
		}
		p, _ := (*dst).(*Value)
		if p == nil {
			cell := zero(u.Elem())
			p = &cell
			e.store(dst, p)
		}
		return e.fromJ(j, u.Elem(), p)
	case *types.Interface:
		if u.NumMethods() != 0 {
			if j.kind == jNull {
				e.store(dst, Iface{})
				return nil
			}
			return e.jsonErr("cannot unmarshal into non-empty interface")
		}
		e.store(dst, e.jsonGeneric(j))
		return nil
	case *types.Basic:
		if j.kind == jNull {
			return nil
		}
		switch {
		case u.Info()&types.IsBoolean != 0:
			if j.kind != jBool {
				return e.jsonErr("cannot unmarshal into bool")
			}
			e.store(dst, j.b)
		case u.Info()&types.IsString != 0:
			if j.kind != jStr {
				return e.jsonErr("cannot unmarshal " + kindName(j.kind) + " into Go value of type string")
			}
			e.store(dst, j.str)
		case u.Info()&types.IsInteger != 0:
			if j.kind != jNum {
				return e.jsonErr("cannot unmarshal " + kindName(j.kind) + " into Go value of type " + u.Name())
			}
			w, signed, _ := intInfo(u)
			if j.num != nil {
				x := j.num
				if w < 64 {
					// range check
					var fits *smt.Term
					if signed {
						fits = smt.Eq(smt.Sext(smt.Extract(x, w-1, 0), 64), x)
					} else {
						fits = smt.Eq(smt.Zext(smt.Extract(x, w-1, 0), 64), x)
					}
					if !e.branch(fits) {
						return e.jsonErr("number out of range")
					}
					x = smt.Extract(x, w-1, 0)
				} else if signed != j.signed {
					if e.branch(smt.Slt(x, intC(0))) {
						return e.jsonErr("number out of range")
					}
				}
				e.store(dst, x)
			} else {
				if signed {
					n, err := strconv.ParseInt(j.numText, 10, w)
					if err != nil {
						return e.jsonErr("cannot unmarshal number " + j.numText + " into Go value of type " + u.Name())
					}
					e.store(dst, smt.ConstS(w, n))
				} else {
					n, err := strconv.ParseUint(j.numText, 10, w)
					if err != nil {
						return e.jsonErr("cannot unmarshal number " + j.numText + " into Go value of type " + u.Name())
					}
					e.store(dst, smt.Const(w, n))
				}
			}
		case u.Info()&types.IsFloat != 0:
			if j.kind != jNum {
				return e.jsonErr("cannot unmarshal into float")
			}
			if j.num != nil {
				if j.signed {
					e.store(dst, smt.FFromS(j.num))
				} else {
					e.store(dst, smt.FFromU(j.num))
				}
			} else {
				f, err := strconv.ParseFloat(j.numText, 64)
				if err != nil {
					return e.jsonErr("bad number")
				}
				e.store(dst, smt.ConstF(f))
			}
		}
		return nil
	case *types.Struct:
		if j.kind == jNull {
			return nil
		}
		if j.kind != jObj {
			return e.jsonErr("cannot unmarshal " + kindName(j.kind) + " into Go value of type " + t.String())
		}
		var firstErr Value
		for i, k := range j.keys {
			fp, ft := e.findField(u, (*dst).(Struct), k, dst)
			if fp == nil {
				continue
			}
			if err := e.fromJ(j.vals[i], ft, fp); err != nil && firstErr == nil {
				firstErr = err
			}
		}
		return firstErr
	case *types.Slice:
		if j.kind == jNull {
			e.store(dst, []Value(nil))
			return nil
		}
		if eb, ok := u.Elem().Underlying().(*types.Basic); ok && eb.Kind() == types.Uint8 && j.kind == jStr {
			c, ok := j.str.Concrete()
			if !ok {
				e.unsupported("JSON model: base64 decode of symbolic string")
			}
			b, err := base64.StdEncoding.DecodeString(c)
			if err != nil {
				return e.jsonErr(err.Error())
			}
			e.store(dst, strToVals(mkStr(string(b))))
			return nil
		}
		if j.kind != jArr {
			return e.jsonErr("cannot unmarshal " + kindName(j.kind) + " into Go value of type " + t.String())
		}
		sl := make([]Value, len(j.arr))
		var firstErr Value
		for i, el := range j.arr {
			sl[i] = zero(u.Elem())
			if err := e.fromJ(el, u.Elem(), &sl[i]); err != nil && firstErr == nil {
				firstErr = err
			}
		}
		e.store(dst, sl)
		return firstErr
	case *types.Map:
		if j.kind == jNull {
			e.store(dst, (*Map)(nil))
			return nil
		}
		if j.kind != jObj {
			return e.jsonErr("cannot unmarshal " + kindName(j.kind) + " into Go value of type " + t.String())
		}
		if !isString(u.Key()) {
			e.unsupported("JSON model: map with non-string key")
		}
		m, _ := (*dst).(*Map)
		if m == nil {
			m = e.makeMap(t)
			e.store(dst, m)
		}
		var firstErr Value
		for i, k := range j.keys {
			cell := zero(u.Elem())
			if err := e.fromJ(j.vals[i], u.Elem(), &cell); err != nil && firstErr == nil {
				firstErr = err
			}
			e.mapInsert(m, k, cell)
		}
		return firstErr
	}
	e.unsupported("JSON model: cannot unmarshal into " + t.String())
	return nil
}

func kindName(k int) string {
	return [...]string{"null", "bool", "number", "string", "array", "object", "raw"}[k]
}

// findField locates the struct field for JSON key k (exact match first, then ASCII
// case-insensitive), descending into embedded structs.
func (e *Engine) findField(st *types.Struct, sv Struct, k Str, base *Value) (*Value, types.Type) {
	type cand struct {
		p    *Value
		t    types.Type
		name string
	}
	var cands []cand
	var collect func(st *types.Struct, sv Struct)
	collect = func(st *types.Struct, sv Struct) {
		for i := 0; i < st.NumFields(); i++ {
			f := st.Field(i)
			name, _, skip, _ := e.jsonTag(f, st.Tag(i))
			if skip {
				continue
			}
			_, tagged := reflect.StructTag(st.Tag(i)).Lookup("json")
			if f.Embedded() && !tagged {
				ft := f.Type()
				if est, ok := ft.Underlying().(*types.Struct); ok {
					collect(est, sv[i].(Struct))
					continue
				}
				if pt, ok := ft.Underlying().(*types.Pointer); ok {
					if est, ok := pt.Elem().Underlying().(*types.Struct); ok {
						p, _ := sv[i].(*Value)
						if p == nil {
							cell := zero(pt.Elem())
							p = &cell
							e.store(&sv[i], p)
						}
						collect(est, (*p).(Struct))
						continue
					}
				}
			}
			if !f.Exported() {
				continue
			}
			cands = append(cands, cand{&sv[i], f.Type(), name})
		}
	}
	collect(st, sv)
	if kc, ok := k.Concrete(); ok {
		for _, c := range cands {
			if c.name == kc {
				return c.p, c.t
			}
		}
		for _, c := range cands {
			if foldEq(c.name, kc) {
				return c.p, c.t
			}
		}
		return nil, nil
	}
	for _, c := range cands {
		if e.branch(strEq(k, mkStr(c.name))) {
			return c.p, c.t
		}
	}
	e.Assumptions["JSON model: symbolic object keys matched case-sensitively"] = true
	return nil, nil
}

func (e *Engine) jsonGeneric(j *jval) Value {
	anyT := types.NewInterfaceType(nil, nil)
	switch j.kind {
	case jNull:
		return Iface{}
	case jBool:
		return Iface{T: types.Typ[types.Bool], V: j.b}
	case jNum:
		if j.num != nil {
			if j.signed {
				return Iface{T: types.Typ[types.Float64], V: smt.FFromS(j.num)}
			}
			return Iface{T: types.Typ[types.Float64], V: smt.FFromU(j.num)}
		}
		f, _ := strconv.ParseFloat(j.numText, 64)
		return Iface{T: types.Typ[types.Float64], V: smt.ConstF(f)}
	case jStr:
		return Iface{T: types.Typ[types.String], V: j.str}
	case jArr:
		sl := make([]Value, len(j.arr))
		for i, el := range j.arr {
			sl[i] = e.jsonGeneric(el)
		}
		return Iface{T: types.NewSlice(anyT), V: sl}
	case jObj:
		mt := types.NewMap(types.Typ[types.String], anyT)
		m := e.makeMap(mt)
		for i, k := range j.keys {
			e.mapInsert(m, k, e.jsonGeneric(j.vals[i]))
		}
		return Iface{T: mt, V: m}
	case jRaw:
		if d := e.jsonLookup(j.raw); d != nil {
			return e.jsonGeneric(d.root)
		}
	}
	e.unsupported("JSON model: generic decode")
	return nil
}

// jsonUnmarshal decodes data into the pointer v.
func (e *Engine) jsonUnmarshal(data []*smt.Term, v Iface) Value {
	if v.T == nil {
		return e.jsonErr("Unmarshal(nil)")
	}
	pt, ok := v.T.Underlying().(*types.Pointer)
	p, _ := v.V.(*Value)
	if !ok || p == nil {
		return e.jsonErr("Unmarshal(non-pointer " + v.T.String() + ")")
	}
	var root *jval
	if d := e.jsonLookup(data); d != nil {
		if d.bad != "" {
			return e.jsonErr(d.bad)
		}
		root = d.root
	} else if c, ok := mkStrB(data).Concrete(); ok {
		// leading/trailing whitespace is fine for Unmarshal
		r, bad := parseConcreteJSON(c)
		if bad != "" {
			e.jsonReg = append(e.jsonReg, &jsonDoc{bytes: data, bad: bad})
			return e.jsonErr(bad)
		}
		root = r
		e.jsonRegister(data, root)
	} else {
		// a document followed by '\n' (Encoder output) or a strict prefix of a known document
		for _, d := range e.jsonReg {
			if len(data) == len(d.bytes)+1 && sameTerms(data[:len(d.bytes)], d.bytes) && data[len(data)-1] == byteConst['\n'] {
				root = d.root
				break
			}
		}
		if root == nil {
			for _, d := range e.jsonReg {
				if d.root != nil && len(data) < len(d.bytes) && sameTerms(data, d.bytes[:len(data)]) && (d.root.kind == jObj || d.root.kind == jArr) {
					return e.jsonErr("unexpected end of JSON input")
				}
			}
			if !utf8.Valid(nil) {
				panic("unreachable")
			}
			e.unsupported("JSON model: decoding symbolic bytes not produced by Marshal")
		}
	}
	return e.fromJ(root, pt.Elem(), p)
}

func errOrNil(v Value) Value {
	if v == nil {
		return Iface{}
	}
	return v
}

// readAllFrom drains an io.Reader value by calling its Read method.
func (e *Engine) readAllFrom(fr *frame, r Iface) ([]*smt.Term, Value) {
	var data []*smt.Term
	if r.T == nil {
		e.rtPanic("nil reader")
	}
	for iter := 0; ; iter++ {
		if iter > 10000 {
			e.abort("bound", "reader never ends")
		}
		buf := make([]Value, 512)
		for i := range buf {
			buf[i] = byteConst[0]
		}
		res, ok := e.callMethod(fr, r.T, r.V, "Read", buf)
		if !ok {
			e.unsupported("reader without Read")
		}
		tup := res.(Tuple)
		n := int(e.concInt(tup[0]))
		for i := 0; i < n; i++ {
			data = append(data, buf[i].(*smt.Term))
		}
		if err, _ := tup[1].(Iface); err.T != nil {
			if e.isEOF(err) {
				return data, nil
			}
			return data, err
		}
	}
}

func (e *Engine) isEOF(err Iface) bool {
	iop := e.Prog.ImportedPackage("io")
	if iop == nil {
		return false
	}
	g := iop.Var("EOF")
	cell := e.globals[g]
	eof, _ := (*cell).(Iface)
	if eof.T == nil || err.T == nil || !types.Identical(eof.T, err.T) {
		return false
	}
	return eof.V == err.V
}

func registerJSON(m map[string]modelFn) {
	m["encoding/json.Marshal"] = func(fr *frame, a []Value) Value {
		return Tuple{fr.e.jsonMarshal(a[0].(Iface), "", ""), Iface{}}
	}
	m["encoding/json.MarshalIndent"] = func(fr *frame, a []Value) Value {
		return Tuple{fr.e.jsonMarshal(a[0].(Iface), fr.e.concStr(a[1], "prefix"), fr.e.concStr(a[2], "indent")), Iface{}}
	}
	m["encoding/json.Unmarshal"] = func(fr *frame, a []Value) Value {
		data, _ := a[0].([]Value)
		return errOrNil(fr.e.jsonUnmarshal(valsToStr(data).Bytes(), a[1].(Iface)))
	}
	m["encoding/json.Valid"] = func(fr *frame, a []Value) Value {
		data, _ := a[0].([]Value)
		bs := valsToStr(data).Bytes()
		if d := fr.e.jsonLookup(bs); d != nil {
			return smt.B(d.bad == "")
		}
		if c, ok := mkStrB(bs).Concrete(); ok {
			return smt.B(json.Valid([]byte(c)))
		}
		fr.e.unsupported("json.Valid on symbolic bytes")
		return nil
	}
	m["encoding/json.NewDecoder"] = func(fr *frame, a []Value) Value {
		p := fr.e.newZeroPtr("encoding/json", "Decoder")
		fr.e.side[p.(*Value)] = a[0].(Iface)
		return p
	}
	m["(*encoding/json.Decoder).Decode"] = func(fr *frame, a []Value) Value {
		e := fr.e
		p := a[0].(*Value)
		r, ok := e.side[p].(Iface)
		if !ok {
			e.unsupported("json.Decoder not created by the model")
		}
		data, rerr := e.readAllFrom(fr, r)
		if rerr != nil {
			return rerr
		}
		// an empty stream is io.EOF
		allWS := true
		for _, b := range data {
			if !(b.IsConst() && (b.Val == ' ' || b.Val == '\n' || b.Val == '\t' || b.Val == '\r')) {
				allWS = false
			}
		}
		if allWS {
			iop := e.Prog.ImportedPackage("io")
			return *e.globals[iop.Var("EOF")]
		}
		return errOrNil(e.jsonUnmarshal(data, a[1].(Iface)))
	}
	m["encoding/json.NewEncoder"] = func(fr *frame, a []Value) Value {
		p := fr.e.newZeroPtr("encoding/json", "Encoder")
		fr.e.side[p.(*Value)] = a[0].(Iface)
		return p
	}
	m["(*encoding/json.Encoder).Encode"] = func(fr *frame, a []Value) Value {
		e := fr.e
		p := a[0].(*Value)
		w, ok := e.side[p].(Iface)
		if !ok {
			e.unsupported("json.Encoder not created by the model")
		}
		out := e.jsonMarshal(a[1].(Iface), "", "")
		out = append(out, byteConst['\n'])
		res, ok := e.callMethod(fr, w.T, w.V, "Write", out)
		if !ok {
			e.unsupported("writer without Write")
		}
		return res.(Tuple)[1]
	}
	m["(*encoding/json.Encoder).SetIndent"] = func(fr *frame, a []Value) Value {
		fr.e.unsupported("json.Encoder.SetIndent")
		return nil
	}
}
