package exec

import (
	"crypto/sha256"
	"crypto/sha512"
	"fmt"

	"symgo/smt"
)

// Hash model: SHA-2 is computed for real on concrete inputs; on symbolic inputs the digest
// is a vector of fresh symbolic bytes axiomatised to be an injective function of the content
// (collision freedom is the stated assumption).

type hashEntry struct {
	alg     string
	content []*smt.Term
	sum     []*smt.Term
}

type hashState struct {
	alg  string
	data []*smt.Term
}

func hashSize(alg string) int {
	switch alg {
	case "sha256":
		return 32
	case "sha224":
		return 28
	case "sha384":
		return 48
	case "sha512":
		return 64
	}
	return 0
}

func realHash(alg string, b []byte) []byte {
	switch alg {
	case "sha256":
		s := sha256.Sum256(b)
		return s[:]
	case "sha224":
		s := sha256.Sum224(b)
		return s[:]
	case "sha384":
		s := sha512.Sum384(b)
		return s[:]
	case "sha512":
		s := sha512.Sum512(b)
		return s[:]
	}
	panic("realHash: " + alg)
}

func sameTerms(a, b []*smt.Term) bool {
	if len(a) != len(b) {
		return false
	}
	for i := range a {
		if a[i] != b[i] {
			return false
		}
	}
	return true
}

func termsEq(a, b []*smt.Term) *smt.Term {
	if len(a) != len(b) {
		return smt.False
	}
	r := smt.True
	for i := range a {
		r = smt.And(r, smt.Eq(a[i], b[i]))
		if r.IsFalse() {
			return r
		}
	}
	return r
}

// wellKnownPreimages: contents whose digests occur as literals in the code under test (the empty
// blob and the empty JSON object of the image spec). They are registered before the first hash of
// a path so that a symbolic digest is axiomatised to differ from those literals as well.
var wellKnownPreimages = []string{"", "{}"}

func (e *Engine) hashBytes(alg string, content []*smt.Term) []*smt.Term {
	seeded := false
	for _, h := range e.hashReg {
		if h.alg == alg {
			seeded = true
			break
		}
	}
	if !seeded {
		for _, w := range wellKnownPreimages {
			var c, sum []*smt.Term
			for _, b := range []byte(w) {
				c = append(c, byteConst[b])
			}
			for _, b := range realHash(alg, []byte(w)) {
				sum = append(sum, byteConst[b])
			}
			e.hashReg = append(e.hashReg, &hashEntry{alg: alg, content: c, sum: sum})
		}
	}
	for _, h := range e.hashReg {
		if h.alg == alg && sameTerms(h.content, content) {
			return h.sum
		}
	}
	conc := true
	for _, t := range content {
		if !t.IsConst() {
			conc = false
			break
		}
	}
	var sum []*smt.Term
	if conc {
		bs := make([]byte, len(content))
		for i, t := range content {
			bs[i] = byte(t.Val)
		}
		for _, b := range realHash(alg, bs) {
			sum = append(sum, byteConst[b])
		}
	} else {
		e.Assumptions["hash model: SHA-2 over symbolic bytes is an injective uninterpreted function (collision freedom)"] = true
		n := e.nvars["hash"]
		e.nvars["hash"] = n + 1
		for i := 0; i < hashSize(alg); i++ {
			// two 4-bit variables per byte so that hex encoding/decoding folds per nibble
			hi := smt.Var(fmt.Sprintf("%s!%d_%dh", alg, n, i), smt.BV(4))
			lo := smt.Var(fmt.Sprintf("%s!%d_%dl", alg, n, i), smt.BV(4))
			sum = append(sum, smt.Concat(hi, lo))
		}
	}
	ne := &hashEntry{alg: alg, content: append([]*smt.Term(nil), content...), sum: sum}
	// injectivity axioms against everything hashed so far on this path
	for _, h := range e.hashReg {
		if h.alg != alg {
			continue
		}
		ceq := termsEq(h.content, content)
		seq := termsEq(h.sum, sum)
		ax := smt.Eq(ceq, seq)
		if !ax.IsTrue() {
			e.addPC(ax)
		}
	}
	e.hashReg = append(e.hashReg, ne)
	return sum
}

func registerHash(m map[string]modelFn) {
	state := func(fr *frame, p Value) *hashState {
		st, ok := fr.e.side[p.(*Value)].(*hashState)
		if !ok {
			fr.e.unsupported("hash object not created by the model")
		}
		return st
	}
	newHash := func(fr *frame, pkg, alg string) Value {
		sp := fr.e.Prog.ImportedPackage(pkg)
		if sp == nil {
			fr.e.unsupported("package not loaded: " + pkg)
		}
		dt := sp.Type("digest").Object().Type()
		var cell Value = zero(dt)
		p := &cell
		fr.e.side[p] = &hashState{alg: alg}
		return Iface{T: typesPointer(dt), V: p}
	}
	m["crypto/sha256.New"] = func(fr *frame, a []Value) Value { return newHash(fr, "crypto/sha256", "sha256") }
	m["crypto/sha256.New224"] = func(fr *frame, a []Value) Value { return newHash(fr, "crypto/sha256", "sha224") }
	m["crypto/sha512.New"] = func(fr *frame, a []Value) Value { return newHash(fr, "crypto/sha512", "sha512") }
	m["crypto/sha512.New384"] = func(fr *frame, a []Value) Value { return newHash(fr, "crypto/sha512", "sha384") }
	m["(crypto.Hash).New"] = func(fr *frame, a []Value) Value {
		switch term(a[0]).Val {
		case 4:
			return newHash(fr, "crypto/sha256", "sha224")
		case 5:
			return newHash(fr, "crypto/sha256", "sha256")
		case 6:
			return newHash(fr, "crypto/sha512", "sha384")
		case 7:
			return newHash(fr, "crypto/sha512", "sha512")
		}
		panic(targetPanic{Iface{T: typesString, V: mkStr("crypto: requested hash function is unavailable")}})
	}
	m["(crypto.Hash).Available"] = func(fr *frame, a []Value) Value {
		v := term(a[0]).Val
		return smt.B(v >= 4 && v <= 7)
	}
	m["(crypto.Hash).Size"] = func(fr *frame, a []Value) Value {
		switch term(a[0]).Val {
		case 4:
			return intC(28)
		case 5:
			return intC(32)
		case 6:
			return intC(48)
		case 7:
			return intC(64)
		}
		panic(targetPanic{Iface{T: typesString, V: mkStr("crypto: Size of unknown hash function")}})
	}
	for _, pkg := range []string{"crypto/sha256", "crypto/sha512"} {
		pre := "(*" + pkg + ".digest)."
		m[pre+"Write"] = func(fr *frame, a []Value) Value {
			st := state(fr, a[0])
			p, _ := a[1].([]Value)
			old := st.data
			fr.e.logUndo(func() { st.data = old })
			nd := append([]*smt.Term(nil), st.data...)
			for _, b := range p {
				nd = append(nd, b.(*smt.Term))
			}
			st.data = nd
			return Tuple{intC(int64(len(p))), Iface{}}
		}
		m[pre+"Sum"] = func(fr *frame, a []Value) Value {
			st := state(fr, a[0])
			in, _ := a[1].([]Value)
			sum := fr.e.hashBytes(st.alg, st.data)
			vals := make([]Value, len(sum))
			for i := range sum {
				vals[i] = sum[i]
			}
			return fr.e.appendVals(in, vals)
		}
		m[pre+"Reset"] = func(fr *frame, a []Value) Value {
			st := state(fr, a[0])
			old := st.data
			fr.e.logUndo(func() { st.data = old })
			st.data = nil
			return nil
		}
		m[pre+"Size"] = func(fr *frame, a []Value) Value { return intC(int64(hashSize(state(fr, a[0]).alg))) }
		m[pre+"BlockSize"] = func(fr *frame, a []Value) Value {
			if hashSize(state(fr, a[0]).alg) > 32 {
				return intC(128)
			}
			return intC(64)
		}
	}
	sumFn := func(alg string) modelFn {
		return func(fr *frame, a []Value) Value {
			data := valsToStr(a[0]).Bytes()
			sum := fr.e.hashBytes(alg, data)
			r := make(Array, len(sum))
			for i := range sum {
				r[i] = sum[i]
			}
			return r
		}
	}
	m["crypto/sha256.Sum256"] = sumFn("sha256")
	m["crypto/sha256.Sum224"] = sumFn("sha224")
	m["crypto/sha512.Sum512"] = sumFn("sha512")
	m["crypto/sha512.Sum384"] = sumFn("sha384")
}
