package exec

import (
	"fmt"
	"go/types"
	"strings"

	"golang.org/x/tools/go/ssa"
	"symgo/smt"
)

// Value is a (possibly symbolic) Go value:
//
//	*smt.Term     bool, integers (bit-vectors), float64
//	Str           string with concrete length
//	[]Value       slice (native aliasing)
//	Array, Struct value-typed aggregates (copied on load/store)
//	*Value        pointer
//	Iface         interface value
//	Tuple         multi-value
//	*Closure, *ssa.Function, *ssa.Builtin, *Native   function values
//	*Map, *Chan
//	UPtr          unsafe.Pointer
type Value interface{}

type Array []Value
type Struct []Value
type Tuple []Value

type Iface struct {
	T types.Type // nil => nil interface
	V Value
}

type Closure struct {
	Fn  *ssa.Function
	Env []Value
}

// Native is a function value implemented by the engine.
type Native struct {
	Name string
	F    func(fr *frame, args []Value) Value
}

// UPtr is an unsafe.Pointer wrapping another pointer-ish value.
type UPtr struct{ P Value }

// Str is a string of concrete length. If B is nil the string is the concrete S.
type Str struct {
	S string
	B []*smt.Term
}

func mkStr(s string) Str { return Str{S: s} }

func mkStrB(b []*smt.Term) Str {
	allc := true
	for _, t := range b {
		if !t.IsConst() {
			allc = false
			break
		}
	}
	if allc {
		bs := make([]byte, len(b))
		for i, t := range b {
			bs[i] = byte(t.Val)
		}
		return Str{S: string(bs)}
	}
	return Str{B: b}
}

func (s Str) Len() int {
	if s.B != nil {
		return len(s.B)
	}
	return len(s.S)
}

func (s Str) At(i int) *smt.Term {
	if s.B != nil {
		return s.B[i]
	}
	return byteConst[s.S[i]]
}

func (s Str) Concrete() (string, bool) {
	if s.B != nil {
		return "", false
	}
	return s.S, true
}

func (s Str) Bytes() []*smt.Term {
	if s.B != nil {
		return s.B
	}
	r := make([]*smt.Term, len(s.S))
	for i := 0; i < len(s.S); i++ {
		r[i] = byteConst[s.S[i]]
	}
	return r
}

func (s Str) Slice(lo, hi int) Str {
	if s.B != nil {
		return mkStrB(s.B[lo:hi])
	}
	return Str{S: s.S[lo:hi]}
}

func (s Str) String() string {
	if s.B == nil {
		return s.S
	}
	var sb strings.Builder
	for _, t := range s.B {
		if t.IsConst() {
			sb.WriteByte(byte(t.Val))
		} else {
			sb.WriteString("¿")
		}
	}
	return sb.String()
}

func strConcat(a, b Str) Str {
	if a.B == nil && b.B == nil {
		return Str{S: a.S + b.S}
	}
	r := make([]*smt.Term, 0, a.Len()+b.Len())
	r = append(r, a.Bytes()...)
	r = append(r, b.Bytes()...)
	return Str{B: r}
}

// strEq returns the Bool term a == b.
func strEq(a, b Str) *smt.Term {
	if a.Len() != b.Len() {
		return smt.False
	}
	if a.B == nil && b.B == nil {
		return smt.B(a.S == b.S)
	}
	r := smt.True
	for i := 0; i < a.Len(); i++ {
		r = smt.And(r, byteEq(a.At(i), b.At(i)))
		if r.IsFalse() {
			return r
		}
	}
	return r
}

// strLess returns the Bool term a < b (bytewise lexicographic).
func strLess(a, b Str) *smt.Term {
	if a.B == nil && b.B == nil {
		return smt.B(a.S < b.S)
	}
	n := a.Len()
	if b.Len() < n {
		n = b.Len()
	}
	// from the back: less_i = a[i]<b[i] || (a[i]==b[i] && less_{i+1})
	r := smt.B(a.Len() < b.Len())
	for i := n - 1; i >= 0; i-- {
		r = smt.Or(smt.Ult(a.At(i), b.At(i)), smt.And(smt.Eq(a.At(i), b.At(i)), r))
	}
	return r
}

var byteConst [256]*smt.Term

func init() {
	for i := range byteConst {
		byteConst[i] = smt.Const(8, uint64(i))
	}
}

// ---- type helpers ----

func under(t types.Type) types.Type { return t.Underlying() }

func deref(t types.Type) types.Type {
	if p, ok := t.Underlying().(*types.Pointer); ok {
		return p.Elem()
	}
	panic(fmt.Sprintf("deref: not a pointer: %v", t))
}

// intInfo returns (width, signed) for integer-like basic kinds.
func intInfo(t types.Type) (w int, signed bool, ok bool) {
	b, isB := t.Underlying().(*types.Basic)
	if !isB {
		return 0, false, false
	}
	switch b.Kind() {
	case types.Int, types.Int64, types.UntypedInt, types.UntypedRune:
		return 64, true, true
	case types.Int8:
		return 8, true, true
	case types.Int16:
		return 16, true, true
	case types.Int32:
		return 32, true, true
	case types.Uint, types.Uint64, types.Uintptr:
		return 64, false, true
	case types.Uint8:
		return 8, false, true
	case types.Uint16:
		return 16, false, true
	case types.Uint32:
		return 32, false, true
	}
	return 0, false, false
}

func isFloat(t types.Type) bool {
	b, ok := t.Underlying().(*types.Basic)
	return ok && b.Info()&types.IsFloat != 0
}

func isString(t types.Type) bool {
	b, ok := t.Underlying().(*types.Basic)
	return ok && b.Info()&types.IsString != 0
}

func isBool(t types.Type) bool {
	b, ok := t.Underlying().(*types.Basic)
	return ok && b.Info()&types.IsBoolean != 0
}

func intC(v int64) *smt.Term { return smt.ConstS(64, v) }

// zero returns the zero value of type t.
func zero(t types.Type) Value {
	switch t := t.(type) {
	case *types.Basic:
		if t.Info()&types.IsUntyped != 0 && t.Kind() != types.UntypedNil {
			t = types.Default(t).(*types.Basic)
		}
		switch {
		case t.Kind() == types.UntypedNil:
			return nil
		case t.Info()&types.IsBoolean != 0:
			return smt.False
		case t.Info()&types.IsInteger != 0:
			w, _, _ := intInfo(t)
			return smt.Const(w, 0)
		case t.Info()&types.IsFloat != 0:
			return smt.ConstF(0)
		case t.Info()&types.IsString != 0:
			return Str{}
		case t.Kind() == types.UnsafePointer:
			return UPtr{}
		}
		panic(fmt.Sprint("zero: unexpected basic ", t))
	case *types.Pointer:
		return (*Value)(nil)
	case *types.Array:
		a := make(Array, t.Len())
		if _, basic := t.Elem().Underlying().(*types.Basic); basic && t.Len() > 0 {
			z := zero(t.Elem()) // scalars are immutable: share
			for i := range a {
				a[i] = z
			}
			return a
		}
		for i := range a {
			a[i] = zero(t.Elem())
		}
		return a
	case *types.Named:
		return zero(t.Underlying())
	case *types.Alias:
		return zero(types.Unalias(t))
	case *types.Interface:
		return Iface{}
	case *types.Slice:
		return []Value(nil)
	case *types.Struct:
		s := make(Struct, t.NumFields())
		for i := range s {
			s[i] = zero(t.Field(i).Type())
		}
		return s
	case *types.Tuple:
		if t.Len() == 1 {
			return zero(t.At(0).Type())
		}
		s := make(Tuple, t.Len())
		for i := range s {
			s[i] = zero(t.At(i).Type())
		}
		return s
	case *types.Chan:
		return (*Chan)(nil)
	case *types.Map:
		return (*Map)(nil)
	case *types.Signature:
		return (*ssa.Function)(nil)
	case *types.TypeParam:
		panic("zero: type parameter (generic body not instantiated)")
	}
	panic(fmt.Sprint("zero: unexpected ", t))
}

// copyVal copies value-typed aggregates (arrays, structs) deeply; other values are shared.
func copyVal(v Value) Value {
	switch v := v.(type) {
	case Array:
		a := make(Array, len(v))
		for i := range v {
			a[i] = copyVal(v[i])
		}
		return a
	case Struct:
		s := make(Struct, len(v))
		for i := range v {
			s[i] = copyVal(v[i])
		}
		return s
	}
	return v
}

// isNilFunc reports whether a function value is nil.
func isNilFunc(v Value) bool {
	switch f := v.(type) {
	case nil:
		return true
	case *ssa.Function:
		return f == nil
	case *Closure:
		return f == nil
	case *Native:
		return f == nil
	case *ssa.Builtin:
		return f == nil
	}
	return false
}

// toStringDebug renders a value for diagnostics.
func toStringDebug(v Value) string {
	return dbg(v, 0)
}

func dbg(v Value, depth int) string {
	if depth > 4 {
		return "..."
	}
	switch v := v.(type) {
	case nil:
		return "nil"
	case *smt.Term:
		s := v.String()
		if len(s) > 80 {
			s = s[:80] + "…"
		}
		return s
	case Str:
		return fmt.Sprintf("%q", v.String())
	case []Value:
		if len(v) > 0 {
			if t, ok := v[0].(*smt.Term); ok && t.S == smt.BV(8) {
				bs := make([]*smt.Term, len(v))
				okAll := true
				for i := range v {
					bt, ok := v[i].(*smt.Term)
					if !ok {
						okAll = false
						break
					}
					bs[i] = bt
				}
				if okAll {
					return fmt.Sprintf("[]byte(%q)", mkStrB(bs).String())
				}
			}
		}
		parts := []string{}
		for i, e := range v {
			if i > 8 {
				parts = append(parts, "…")
				break
			}
			parts = append(parts, dbg(e, depth+1))
		}
		return "[" + strings.Join(parts, " ") + "]"
	case Array:
		return "arr" + dbg([]Value(v), depth)
	case Struct:
		parts := []string{}
		for _, e := range v {
			parts = append(parts, dbg(e, depth+1))
		}
		return "{" + strings.Join(parts, " ") + "}"
	case Tuple:
		parts := []string{}
		for _, e := range v {
			parts = append(parts, dbg(e, depth+1))
		}
		return "(" + strings.Join(parts, ", ") + ")"
	case *Value:
		if v == nil {
			return "nilptr"
		}
		return "&" + dbg(*v, depth+1)
	case Iface:
		if v.T == nil {
			return "nil-iface"
		}
		return fmt.Sprintf("iface(%s:%s)", v.T, dbg(v.V, depth+1))
	case *ssa.Function:
		if v == nil {
			return "nilfunc"
		}
		return v.String()
	case *Closure:
		return "closure:" + v.Fn.String()
	case *Map:
		if v == nil {
			return "nilmap"
		}
		return fmt.Sprintf("map[%d]", len(v.ents))
	case *Chan:
		return "chan"
	}
	return fmt.Sprintf("%T", v)
}
