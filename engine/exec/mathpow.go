package exec

import "math"

func mathPowImpl(x, y float64) float64 { return math.Pow(x, y) }
