package exec

import (
	"fmt"
	"go/types"

	"golang.org/x/tools/go/ssa"
)

const (
	SchedEager = 0 // spawned goroutine runs first until it blocks
	SchedLazy  = 1 // spawner continues; goroutines run when the current one blocks
	SchedBoth  = 2 // fork on that choice at every spawn
	SchedAll   = 3 // additionally fork over every runnable goroutine at every scheduling point
)

// G is an interpreted goroutine, backed by a real goroutine; exactly one holds the baton.
type G struct {
	id        int
	wake      chan struct{}
	exited    chan struct{}
	ready     func() bool // nil = runnable
	finished  bool
	signalled bool
	fr        *frame // innermost frame (diagnostics)
	why       string
}

func (e *Engine) newG() *G {
	g := &G{id: len(e.gs), wake: make(chan struct{}, 1), exited: make(chan struct{})}
	e.gs = append(e.gs, g)
	return g
}

// spawn starts a new interpreted goroutine running body.
func (e *Engine) spawn(body func()) {
	if e.inInit {
		return // goroutines started by package initialisers are ignored
	}
	if len(e.gs) > 64 {
		e.abort("bound", "too many goroutines")
	}
	parent := e.cur
	g := e.newG()
	started := make(chan struct{})
	go func() {
		<-g.wake
		if e.aborting {
			g.finished = true
			close(g.exited)
			return
		}
		_ = started
		e.gMain(g, body)
	}()
	eager := false
	switch e.schedMode {
	case SchedEager:
		eager = true
	case SchedLazy:
		eager = false
	default:
		eager = e.choose(2, "spawn") == 0
	}
	if eager {
		// run child now; parent stays runnable
		e.runq = append(e.runq, parent)
		e.switchTo(parent, g)
	} else {
		e.runq = append(e.runq, g)
	}
}

// switchTo hands the baton from 'from' to 'to' and waits until 'from' is scheduled again.
func (e *Engine) switchTo(from, to *G) {
	if from == to {
		return
	}
	e.cur = to
	to.wake <- struct{}{}
	<-from.wake
	if e.aborting {
		panic(pathAbort{})
	}
	e.cur = from
}

// pickNext removes and returns the next goroutine to run, or nil if none is runnable.
func (e *Engine) pickNext() *G {
	var cand []int
	for i, g := range e.runq {
		if g.finished {
			continue
		}
		if g.ready == nil || g.ready() {
			cand = append(cand, i)
		}
	}
	if len(cand) == 0 {
		return nil
	}
	k := 0
	if e.schedMode == SchedAll && len(cand) > 1 {
		k = e.choose(len(cand), "sched")
	}
	i := cand[k]
	g := e.runq[i]
	e.runq = append(e.runq[:i:i], e.runq[i+1:]...)
	g.ready = nil
	return g
}

// park blocks the current goroutine until ready() holds.
func (e *Engine) park(why string, ready func() bool) {
	if ready() {
		return
	}
	if e.inInit {
		e.abort("engine", "blocking operation during init: "+why)
	}
	g := e.cur
	g.ready = ready
	g.why = why
	e.runq = append(e.runq, g)
	next := e.pickNext()
	for next == nil && len(e.pendingTimers) > 0 {
		// nobody can run: let time pass until the next timer fires
		t := e.pendingTimers[0]
		e.pendingTimers = e.pendingTimers[1:]
		e.chanSnapshot(t)
		if len(t.buf) < t.cap {
			t.buf = append(t.buf, e.timeZero())
		}
		next = e.pickNext()
	}
	if next == nil {
		e.deadlock()
	}
	e.switchTo(g, next)
}

// yield lets other runnable goroutines run.
func (e *Engine) yield() {
	if e.inInit {
		return
	}
	g := e.cur
	// is anybody else runnable?
	any := false
	for _, o := range e.runq {
		if !o.finished && (o.ready == nil || o.ready()) {
			any = true
			break
		}
	}
	if !any {
		return
	}
	g.ready = nil
	e.runq = append(e.runq, g)
	next := e.pickNext()
	e.switchTo(g, next)
}

func (e *Engine) deadlock() {
	e.abort("deadlock", e.describeBlocked())
}

func (e *Engine) describeBlocked() string {
	desc := ""
	for _, g := range e.runq {
		if !g.finished {
			desc += fmt.Sprintf("[g%d %s", g.id, g.why)
			n := 0
			for fr := g.fr; fr != nil && n < 5; fr = fr.caller {
				if fr.fn != nil {
					desc += " < " + fr.fn.Name()
					n++
				}
			}
			desc += "]"
		}
	}
	return desc
}

// goexit is called when a goroutine other than g0 finishes normally.
func (e *Engine) goexit(g *G) {
	next := e.pickNext()
	if next == nil {
		// everyone else is blocked: g0 is among them => deadlock
		if !e.aborting {
			e.outcome = Outcome{"deadlock", e.describeBlocked()}
			e.aborting = true
		}
		select {
		case e.pathDone <- struct{}{}:
		default:
		}
		return
	}
	e.cur = next
	next.wake <- struct{}{}
}

// ---------------------------------------------------------------------------------------
// channels

type sudog struct {
	val  Value
	ok   bool
	done bool
}

type Chan struct {
	cap    int
	buf    []Value
	closed bool
	sendq  []*sudog
	recvq  []*sudog
	elem   types.Type
	selw   []*selWait // goroutines parked in a select that involves this channel
}

// selWait is a goroutine parked in a select. Another goroutine may complete one of its
// cases directly (rendezvous between two selects, or between a select and a plain op).
type selWait struct {
	cases  []selCase
	done   bool
	chosen int
	recv   Value
	ok     bool
}

type selCase struct {
	c    *Chan
	send bool
	val  Value
}

// completeSelRecv hands v to a goroutine parked in a select with a receive case on c.
func (c *Chan) completeSelRecv(v Value) bool {
	for _, w := range c.selw {
		if w.done {
			continue
		}
		for i, sc := range w.cases {
			if sc.c == c && !sc.send {
				w.done, w.chosen, w.recv, w.ok = true, i, v, true
				return true
			}
		}
	}
	return false
}

// completeSelSend takes the value of a goroutine parked in a select with a send case on c.
func (c *Chan) completeSelSend() (Value, bool) {
	for _, w := range c.selw {
		if w.done {
			continue
		}
		for i, sc := range w.cases {
			if sc.c == c && sc.send {
				w.done, w.chosen = true, i
				return sc.val, true
			}
		}
	}
	return nil, false
}

func (c *Chan) hasSelRecv() bool {
	for _, w := range c.selw {
		if w.done {
			continue
		}
		for _, sc := range w.cases {
			if sc.c == c && !sc.send {
				return true
			}
		}
	}
	return false
}

func (c *Chan) hasSelSend() bool {
	for _, w := range c.selw {
		if w.done {
			continue
		}
		for _, sc := range w.cases {
			if sc.c == c && sc.send {
				return true
			}
		}
	}
	return false
}

func (e *Engine) makeChan(t types.Type, n int) *Chan {
	return &Chan{cap: n, elem: t.Underlying().(*types.Chan).Elem()}
}

func (e *Engine) chanSnapshot(c *Chan) {
	if e.inInit {
		return
	}
	old := *c
	old.buf = append([]Value(nil), c.buf...)
	old.sendq = append([]*sudog(nil), c.sendq...)
	old.recvq = append([]*sudog(nil), c.recvq...)
	old.selw = append([]*selWait(nil), c.selw...)
	e.logUndo(func() { *c = old })
}

func (e *Engine) chanSend(c *Chan, v Value) {
	if c == nil {
		e.park("send on nil chan", func() bool { return false })
	}
	e.chanSnapshot(c)
	if c.closed {
		e.goPanicStr("send on closed channel")
	}
	if len(c.recvq) > 0 {
		r := c.recvq[0]
		c.recvq = c.recvq[1:]
		r.val, r.ok, r.done = v, true, true
		return
	}
	if c.completeSelRecv(v) {
		return
	}
	if len(c.buf) < c.cap {
		c.buf = append(c.buf, v)
		return
	}
	sd := &sudog{val: v}
	c.sendq = append(c.sendq, sd)
	e.park("chan send", func() bool { return sd.done || c.closed })
	if !sd.done {
		e.goPanicStr("send on closed channel")
	}
}

func (e *Engine) chanRecvReady(c *Chan) bool {
	return c != nil && (len(c.buf) > 0 || len(c.sendq) > 0 || c.closed || c.hasSelSend())
}

// chanRecvNow receives assuming chanRecvReady(c).
func (e *Engine) chanRecvNow(c *Chan) (Value, bool) {
	e.chanSnapshot(c)
	if len(c.buf) > 0 {
		v := c.buf[0]
		c.buf = c.buf[1:]
		if len(c.sendq) > 0 {
			sd := c.sendq[0]
			c.sendq = c.sendq[1:]
			c.buf = append(c.buf, sd.val)
			sd.done = true
		}
		return v, true
	}
	if len(c.sendq) > 0 {
		sd := c.sendq[0]
		c.sendq = c.sendq[1:]
		sd.done = true
		return sd.val, true
	}
	if v, ok := c.completeSelSend(); ok {
		return v, true
	}
	return zero(c.elem), false
}

func (e *Engine) chanRecv(c *Chan) (Value, bool) {
	if c == nil {
		e.park("recv on nil chan", func() bool { return false })
	}
	if e.chanRecvReady(c) {
		return e.chanRecvNow(c)
	}
	e.chanSnapshot(c)
	r := &sudog{}
	c.recvq = append(c.recvq, r)
	e.park("chan recv", func() bool { return r.done || c.closed })
	if r.done {
		return r.val, true
	}
	// closed while waiting: remove from queue
	for i, x := range c.recvq {
		if x == r {
			c.recvq = append(c.recvq[:i:i], c.recvq[i+1:]...)
			break
		}
	}
	return zero(c.elem), false
}

func (e *Engine) chanClose(c *Chan) {
	if c == nil {
		e.goPanicStr("close of nil channel")
	}
	e.chanSnapshot(c)
	if c.closed {
		e.goPanicStr("close of closed channel")
	}
	c.closed = true
}

func (e *Engine) goPanicStr(msg string) {
	e.rtPanic(msg)
}

// doSelect implements ssa.Select.
func (e *Engine) doSelect(fr *frame, instr *ssa.Select) Value {
	cases := make([]selCase, len(instr.States))
	for i, st := range instr.States {
		c, _ := fr.get(st.Chan).(*Chan)
		cases[i] = selCase{c: c, send: st.Dir == types.SendOnly}
		if st.Send != nil {
			cases[i].val = fr.get(st.Send)
		}
	}
	readyIdx := func() []int {
		var r []int
		for i, sc := range cases {
			if sc.c == nil {
				continue
			}
			if sc.send {
				if sc.c.closed || len(sc.c.recvq) > 0 || len(sc.c.buf) < sc.c.cap || sc.c.hasSelRecv() {
					r = append(r, i)
				}
			} else if e.chanRecvReady(sc.c) {
				r = append(r, i)
			}
		}
		return r
	}
	rdy := readyIdx()
	chosen := -1
	var recv Value
	recvOk := false
	completed := false
	if len(rdy) == 0 && instr.Blocking {
		w := &selWait{cases: cases}
		for _, sc := range cases {
			if sc.c != nil {
				e.chanSnapshot(sc.c)
				sc.c.selw = append(sc.c.selw, w)
			}
		}
		e.park("select", func() bool { return w.done || len(readyIdx()) > 0 })
		for _, sc := range cases {
			if sc.c != nil {
				e.chanSnapshot(sc.c)
				for k, x := range sc.c.selw {
					if x == w {
						sc.c.selw = append(sc.c.selw[:k:k], sc.c.selw[k+1:]...)
						break
					}
				}
			}
		}
		if w.done {
			completed = true
			chosen = w.chosen
			recv, recvOk = w.recv, w.ok
		} else {
			rdy = readyIdx()
		}
	}
	if !completed {
		if len(rdy) > 0 {
			chosen = rdy[e.choose(len(rdy), "select")]
		}
		if chosen >= 0 {
			sc := cases[chosen]
			if sc.send {
				e.chanSend(sc.c, sc.val)
			} else {
				recv, recvOk = e.chanRecvNow(sc.c)
			}
		}
	}
	r := Tuple{intC(int64(chosen)), boolV(recvOk)}
	for i, st := range instr.States {
		if st.Dir == types.RecvOnly {
			var v Value
			if i == chosen && recvOk {
				v = recv
			} else {
				v = zero(st.Chan.Type().Underlying().(*types.Chan).Elem())
			}
			r = append(r, v)
		}
	}
	return r
}
