package exec

import (
	"fmt"
	"go/types"

	"golang.org/x/tools/go/ssa"
)

const (
	SchedEager = 0 // spawned goroutine runs first until it blocks
	SchedLazy  = 1 // spawner continues; goroutines run when the current one blocks
	SchedBoth  = 2 // fork on that choice at every spawn
	SchedAll   = 3 // additionally fork over every runnable goroutine at every scheduling point
)

// G is an interpreted goroutine, backed by a real goroutine; exactly one holds the baton.
type G struct {
	id        int
	wake      chan struct{}
	exited    chan struct{}
	ready     func() bool // nil = runnable
	finished  bool
	signalled bool
	fr        *frame // innermost frame (diagnostics)
	why       string
}

func (e *Engine) newG() *G {
	g := &G{id: len(e.gs), wake: make(chan struct{}, 1), exited: make(chan struct{})}
	e.gs = append(e.gs, g)
	return g
}

// spawn starts a new interpreted goroutine running body.
func (e *Engine) spawn(body func()) {
	if e.inInit {
		return // goroutines started by package initialisers are ignored
	}
	if len(e.gs) > 64 {
		e.abort("bound", "too many goroutines")
	}
	parent := e.cur
	g := e.newG()
	started := make(chan struct{})
	go func() {
		<-g.wake
		if e.aborting {
			g.finished = true
			close(g.exited)
			return
		}
		_ = started
		e.gMain(g, body)
	}()
	eager := false
	switch e.schedMode {
	case SchedEager:
		eager = true
	case SchedLazy:
		eager = false
	default:
		eager = e.choose(2, "spawn") == 0
	}
	if eager {
		// run child now; parent stays runnable
		e.runq = append(e.runq, parent)
		e.switchTo(parent, g)
	} else {
		e.runq = append(e.runq, g)
	}
}

// switchTo hands the baton from 'from' to 'to' and waits until 'from' is scheduled again.
func (e *Engine) switchTo(from, to *G) {
	if from == to {
		return
	}
	e.cur = to
	to.wake <- struct{}{}
	<-from.wake
	if e.aborting {
		panic(pathAbort{})
	}
	e.cur = from
}

// pickNext removes and returns the next goroutine to run, or nil if none is runnable.
func (e *Engine) pickNext() *G {
	var cand []int
	for i, g := range e.runq {
		if g.finished {
			continue
		}
		if g.ready == nil || g.ready() {
			cand = append(cand, i)
		}
	}
	if len(cand) == 0 {
		return nil
	}
	k := 0
	if e.schedMode == SchedAll && len(cand) > 1 {
		k = e.choose(len(cand), "sched")
	}
	i := cand[k]
	g := e.runq[i]
	e.runq = append(e.runq[:i:i], e.runq[i+1:]...)
	g.ready = nil
	return g
}

// park blocks the current goroutine until ready() holds.
func (e *Engine) park(why string, ready func() bool) {
	if ready() {
		return
	}
	if e.inInit {
		e.abort("engine", "blocking operation during init: "+why)
	}
	g := e.cur
	g.ready = ready
	g.why = why
	e.runq = append(e.runq, g)
	next := e.pickNext()
	if next == nil {
		e.deadlock()
	}
	e.switchTo(g, next)
}

// yield lets other runnable goroutines run.
func (e *Engine) yield() {
	if e.inInit {
		return
	}
	g := e.cur
	// is anybody else runnable?
	any := false
	for _, o := range e.runq {
		if !o.finished && (o.ready == nil || o.ready()) {
			any = true
			break
		}
	}
	if !any {
		return
	}
	g.ready = nil
	e.runq = append(e.runq, g)
	next := e.pickNext()
	e.switchTo(g, next)
}

func (e *Engine) deadlock() {
	desc := ""
	for _, g := range e.runq {
		if !g.finished {
			desc += fmt.Sprintf("[g%d %s]", g.id, g.why)
		}
	}
	e.abort("deadlock", desc)
}

// goexit is called when a goroutine other than g0 finishes normally.
func (e *Engine) goexit(g *G) {
	next := e.pickNext()
	if next == nil {
		// everyone else is blocked: g0 is among them => deadlock
		if !e.aborting {
			desc := ""
			for _, o := range e.runq {
				if !o.finished {
					desc += fmt.Sprintf("[g%d %s]", o.id, o.why)
				}
			}
			e.outcome = Outcome{"deadlock", desc}
			e.aborting = true
		}
		select {
		case e.pathDone <- struct{}{}:
		default:
		}
		return
	}
	e.cur = next
	next.wake <- struct{}{}
}

// ---------------------------------------------------------------------------------------
// channels

type sudog struct {
	val  Value
	ok   bool
	done bool
}

type Chan struct {
	cap    int
	buf    []Value
	closed bool
	sendq  []*sudog
	recvq  []*sudog
	elem   types.Type
}

func (e *Engine) makeChan(t types.Type, n int) *Chan {
	return &Chan{cap: n, elem: t.Underlying().(*types.Chan).Elem()}
}

func (e *Engine) chanSnapshot(c *Chan) {
	if e.inInit {
		return
	}
	old := *c
	old.buf = append([]Value(nil), c.buf...)
	old.sendq = append([]*sudog(nil), c.sendq...)
	old.recvq = append([]*sudog(nil), c.recvq...)
	e.logUndo(func() { *c = old })
}

func (e *Engine) chanSend(c *Chan, v Value) {
	if c == nil {
		e.park("send on nil chan", func() bool { return false })
	}
	e.chanSnapshot(c)
	if c.closed {
		e.goPanicStr("send on closed channel")
	}
	if len(c.recvq) > 0 {
		r := c.recvq[0]
		c.recvq = c.recvq[1:]
		r.val, r.ok, r.done = v, true, true
		return
	}
	if len(c.buf) < c.cap {
		c.buf = append(c.buf, v)
		return
	}
	sd := &sudog{val: v}
	c.sendq = append(c.sendq, sd)
	e.park("chan send", func() bool { return sd.done || c.closed })
	if !sd.done {
		e.goPanicStr("send on closed channel")
	}
}

func (e *Engine) chanRecvReady(c *Chan) bool {
	return c != nil && (len(c.buf) > 0 || len(c.sendq) > 0 || c.closed)
}

// chanRecvNow receives assuming chanRecvReady(c).
func (e *Engine) chanRecvNow(c *Chan) (Value, bool) {
	e.chanSnapshot(c)
	if len(c.buf) > 0 {
		v := c.buf[0]
		c.buf = c.buf[1:]
		if len(c.sendq) > 0 {
			sd := c.sendq[0]
			c.sendq = c.sendq[1:]
			c.buf = append(c.buf, sd.val)
			sd.done = true
		}
		return v, true
	}
	if len(c.sendq) > 0 {
		sd := c.sendq[0]
		c.sendq = c.sendq[1:]
		sd.done = true
		return sd.val, true
	}
	return zero(c.elem), false
}

func (e *Engine) chanRecv(c *Chan) (Value, bool) {
	if c == nil {
		e.park("recv on nil chan", func() bool { return false })
	}
	if e.chanRecvReady(c) {
		return e.chanRecvNow(c)
	}
	e.chanSnapshot(c)
	r := &sudog{}
	c.recvq = append(c.recvq, r)
	e.park("chan recv", func() bool { return r.done || c.closed })
	if r.done {
		return r.val, true
	}
	// closed while waiting: remove from queue
	for i, x := range c.recvq {
		if x == r {
			c.recvq = append(c.recvq[:i:i], c.recvq[i+1:]...)
			break
		}
	}
	return zero(c.elem), false
}

func (e *Engine) chanClose(c *Chan) {
	if c == nil {
		e.goPanicStr("close of nil channel")
	}
	e.chanSnapshot(c)
	if c.closed {
		e.goPanicStr("close of closed channel")
	}
	c.closed = true
}

func (e *Engine) goPanicStr(msg string) {
	e.rtPanic(msg)
}

// doSelect implements ssa.Select.
func (e *Engine) doSelect(fr *frame, instr *ssa.Select) Value {
	type scase struct {
		c    *Chan
		send bool
		val  Value
	}
	cases := make([]scase, len(instr.States))
	for i, st := range instr.States {
		c, _ := fr.get(st.Chan).(*Chan)
		cases[i] = scase{c: c, send: st.Dir == types.SendOnly}
		if st.Send != nil {
			cases[i].val = fr.get(st.Send)
		}
	}
	readyIdx := func() []int {
		var r []int
		for i, sc := range cases {
			if sc.c == nil {
				continue
			}
			if sc.send {
				if sc.c.closed || len(sc.c.recvq) > 0 || len(sc.c.buf) < sc.c.cap {
					r = append(r, i)
				}
			} else if e.chanRecvReady(sc.c) {
				r = append(r, i)
			}
		}
		return r
	}
	rdy := readyIdx()
	chosen := -1
	if len(rdy) == 0 {
		if !instr.Blocking {
			chosen = -1
		} else {
			e.park("select", func() bool { return len(readyIdx()) > 0 })
			rdy = readyIdx()
		}
	}
	if len(rdy) > 0 {
		chosen = rdy[e.choose(len(rdy), "select")]
	}
	var recv Value
	recvOk := false
	if chosen >= 0 {
		sc := cases[chosen]
		if sc.send {
			e.chanSend(sc.c, sc.val)
		} else {
			recv, recvOk = e.chanRecvNow(sc.c)
		}
	}
	r := Tuple{intC(int64(chosen)), boolV(recvOk)}
	for i, st := range instr.States {
		if st.Dir == types.RecvOnly {
			var v Value
			if i == chosen && recvOk {
				v = recv
			} else {
				v = zero(st.Chan.Type().Underlying().(*types.Chan).Elem())
			}
			r = append(r, v)
		}
	}
	return r
}
