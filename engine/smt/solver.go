package smt

import (
	"bufio"
	"fmt"
	"io"
	"os/exec"
	"strconv"
	"strings"
	"time"
)

type Result int

const (
	Unsat Result = iota
	Sat
	Unknown
)

func (r Result) String() string { return [...]string{"unsat", "sat", "unknown"}[r] }

// Solver is one long-lived solver process driven over a pipe, with global declarations so
// that term definitions survive push/pop.
type Solver struct {
	Kind      string // "z3", "z3-new", "cvc5"
	cmd       *exec.Cmd
	in        io.WriteCloser
	out       *bufio.Reader
	emitted   map[int]bool
	scoped    bool    // definitions are scoped by push/pop (cvc5): forget them on pop
	levelDefs [][]int // ids defined at each level (scoped mode)
	Level     int
	Queries   int
	NSat      int
	NUnsat    int
	NUnknown  int
	Time      time.Duration
	TimeoutMs int
	Log       io.Writer
	Errors    []string
}

func NewSolver(kind string, timeoutMs int) (*Solver, error) {
	s := &Solver{Kind: kind, TimeoutMs: timeoutMs}
	if err := s.start(); err != nil {
		return nil, err
	}
	return s, nil
}

func (s *Solver) start() error {
	var cmd *exec.Cmd
	switch s.Kind {
	case "z3":
		cmd = exec.Command("/usr/bin/z3", "-in")
	case "z3-new":
		cmd = exec.Command("z3-new", "-in")
	case "cvc5":
		cmd = exec.Command("cvc5", "--incremental", "--lang=smt2", "--global-declarations", "--produce-models",
			"--tlimit-per="+strconv.Itoa(s.TimeoutMs))
	default:
		return fmt.Errorf("unknown solver %q", s.Kind)
	}
	in, err := cmd.StdinPipe()
	if err != nil {
		return err
	}
	out, err := cmd.StdoutPipe()
	if err != nil {
		return err
	}
	cmd.Stderr = nil
	if err := cmd.Start(); err != nil {
		return err
	}
	s.cmd, s.in, s.out = cmd, in, bufio.NewReaderSize(out, 1<<16)
	s.emitted = map[int]bool{}
	s.Level = 0
	s.scoped = s.Kind == "cvc5"
	s.levelDefs = [][]int{nil}
	if s.Kind == "cvc5" {
		s.send("(set-logic ALL)\n")
	} else {
		s.send("(set-option :global-declarations true)\n")
		s.send(fmt.Sprintf("(set-option :timeout %d)\n", s.TimeoutMs))
	}
	return nil
}

func (s *Solver) Close() {
	if s.cmd != nil {
		s.in.Close()
		s.cmd.Process.Kill()
		s.cmd.Wait()
		s.cmd = nil
	}
}

// Restart kills the process and starts a new one with an empty assertion stack.
func (s *Solver) Restart() error {
	s.Close()
	return s.start()
}

func (s *Solver) send(txt string) {
	if s.Log != nil {
		io.WriteString(s.Log, txt)
	}
	io.WriteString(s.in, txt)
}

// define emits definitions for t's sub-DAG (iteratively, children first).
func (s *Solver) define(root *Term, sb *strings.Builder) {
	type item struct {
		t    *Term
		done bool
	}
	stack := []item{{root, false}}
	for len(stack) > 0 {
		it := stack[len(stack)-1]
		stack = stack[:len(stack)-1]
		t := it.t
		if t.Op == OConst || s.emitted[t.ID] {
			continue
		}
		if t.Op == OVar {
			s.emitted[t.ID] = true
			s.noteDef(t.ID)
			fmt.Fprintf(sb, "(declare-const %s %s)\n", t.Name, t.S)
			continue
		}
		if it.done {
			s.emitted[t.ID] = true
			s.noteDef(t.ID)
			fmt.Fprintf(sb, "(define-fun %s () %s %s)\n", t.Ref(), t.S, t.Body())
			continue
		}
		stack = append(stack, item{t, true})
		for _, a := range t.Args {
			if a.Op != OConst && !s.emitted[a.ID] {
				stack = append(stack, item{a, false})
			}
		}
	}
}

func (s *Solver) noteDef(id int) {
	if s.scoped {
		s.levelDefs[len(s.levelDefs)-1] = append(s.levelDefs[len(s.levelDefs)-1], id)
	}
}

func (s *Solver) pushLevel() {
	if s.scoped {
		s.levelDefs = append(s.levelDefs, nil)
	}
}

func (s *Solver) popLevels(n int) {
	if !s.scoped {
		return
	}
	for i := 0; i < n; i++ {
		top := s.levelDefs[len(s.levelDefs)-1]
		for _, id := range top {
			delete(s.emitted, id)
		}
		s.levelDefs = s.levelDefs[:len(s.levelDefs)-1]
	}
}

// Push asserts t at a new level.
func (s *Solver) Push(t *Term) {
	var sb strings.Builder
	if s.scoped {
		// definitions needed by t must live inside the new level
		sb.WriteString("(push 1)\n")
		s.pushLevel()
		s.define(t, &sb)
		fmt.Fprintf(&sb, "(assert %s)\n", t.Ref())
	} else {
		s.define(t, &sb)
		fmt.Fprintf(&sb, "(push 1)\n(assert %s)\n", t.Ref())
	}
	s.send(sb.String())
	s.Level++
}

// AssertBase asserts t at the current level without opening a new scope (used for one-shot,
// non-incremental re-checks: z3 decides a query asserted without push/pop with its full
// pre-processing pipeline, which the incremental core skips).
func (s *Solver) AssertBase(t *Term) {
	var sb strings.Builder
	s.define(t, &sb)
	fmt.Fprintf(&sb, "(assert %s)\n", t.Ref())
	s.send(sb.String())
}

func (s *Solver) Pop(n int) {
	if n <= 0 {
		return
	}
	s.send(fmt.Sprintf("(pop %d)\n", n))
	s.popLevels(n)
	s.Level -= n
}

func (s *Solver) readLine() (string, error) {
	line, err := s.out.ReadString('\n')
	return strings.TrimSpace(line), err
}

// Check asks whether the current stack plus extra (may be nil) is satisfiable.
// If wantModel is non-empty and the answer is sat, values of those variables are returned.
func (s *Solver) Check(extra *Term, wantModel []*Term) (Result, map[string]uint64) {
	t0 := time.Now()
	defer func() { s.Time += time.Since(t0) }()
	s.Queries++
	var sb strings.Builder
	if extra != nil {
		if s.scoped {
			sb.WriteString("(push 1)\n")
			s.pushLevel()
			s.define(extra, &sb)
			fmt.Fprintf(&sb, "(assert %s)\n", extra.Ref())
		} else {
			s.define(extra, &sb)
			fmt.Fprintf(&sb, "(push 1)\n(assert %s)\n", extra.Ref())
		}
	}
	sb.WriteString("(check-sat)\n")
	s.send(sb.String())
	res := Unknown
	nerr := len(s.Errors)
	for {
		line, err := s.readLine()
		if err != nil {
			s.Errors = append(s.Errors, "solver died: "+err.Error())
			s.Restart()
			s.NUnknown++
			return Unknown, nil
		}
		if line == "" {
			continue
		}
		if strings.HasPrefix(line, "(error") {
			s.Errors = append(s.Errors, line)
			continue
		}
		switch line {
		case "sat":
			res = Sat
		case "unsat":
			res = Unsat
		case "unknown", "timeout":
			res = Unknown
		default:
			s.Errors = append(s.Errors, "unexpected: "+line)
			continue
		}
		break
	}
	if len(s.Errors) > nerr && res != Unknown {
		// an (error line makes the verdict untrustworthy
		res = Unknown
	}
	var model map[string]uint64
	if res == Sat && len(wantModel) > 0 {
		model = s.getValues(wantModel)
	}
	if extra != nil && s.cmd != nil {
		s.send("(pop 1)\n")
		s.popLevels(1)
	}
	switch res {
	case Sat:
		s.NSat++
	case Unsat:
		s.NUnsat++
	default:
		s.NUnknown++
	}
	return res, model
}

func (s *Solver) getValues(vars []*Term) map[string]uint64 {
	model := map[string]uint64{}
	const chunk = 200
	for i := 0; i < len(vars); i += chunk {
		j := i + chunk
		if j > len(vars) {
			j = len(vars)
		}
		var sb strings.Builder
		var pre strings.Builder
		sb.WriteString("(get-value (")
		for _, v := range vars[i:j] {
			s.define(v, &pre)
			sb.WriteString(v.Ref())
			sb.WriteString(" ")
		}
		sb.WriteString("))\n")
		s.send(pre.String() + sb.String())
		// read a balanced s-expression
		depth := 0
		var txt strings.Builder
		started := false
		for !started || depth > 0 {
			line, err := s.readLine()
			if err != nil {
				return model
			}
			if strings.HasPrefix(line, "(error") {
				s.Errors = append(s.Errors, line)
				return model
			}
			for _, c := range line {
				if c == '(' {
					depth++
					started = true
				} else if c == ')' {
					depth--
				}
			}
			txt.WriteString(line)
			txt.WriteString(" ")
		}
		parseValues(txt.String(), vars[i:j], model)
	}
	return model
}

// parseValues parses "((name val) (name val) ...)".
func parseValues(txt string, vars []*Term, model map[string]uint64) {
	toks := tokenize(txt)
	// expect ( ( name val ) ... )
	pos := 0
	next := func() string {
		if pos < len(toks) {
			pos++
			return toks[pos-1]
		}
		return ""
	}
	var parseVal func() (uint64, bool)
	parseVal = func() (uint64, bool) {
		t := next()
		switch {
		case t == "true":
			return 1, true
		case t == "false":
			return 0, true
		case strings.HasPrefix(t, "#x"):
			v, err := strconv.ParseUint(t[2:], 16, 64)
			return v, err == nil
		case strings.HasPrefix(t, "#b"):
			v, err := strconv.ParseUint(t[2:], 2, 64)
			return v, err == nil
		case t == "(":
			head := next()
			switch head {
			case "fp":
				a, _ := parseVal()
				b, _ := parseVal()
				c, _ := parseVal()
				next() // )
				return a<<63 | b<<52 | c, true
			case "_":
				// (_ bv10 32) | (_ +zero 11 53) | (_ NaN 11 53) ...
				name := next()
				var r uint64
				switch {
				case strings.HasPrefix(name, "bv"):
					r, _ = strconv.ParseUint(name[2:], 10, 64)
				case name == "+zero":
					r = 0
				case name == "-zero":
					r = 1 << 63
				case name == "+oo":
					r = 0x7ff0000000000000
				case name == "-oo":
					r = 0xfff0000000000000
				case name == "NaN":
					r = 0x7ff8000000000001
				}
				for pos < len(toks) && toks[pos] != ")" {
					pos++
				}
				next()
				return r, true
			}
			// skip unknown
			depth := 1
			for depth > 0 && pos < len(toks) {
				t := next()
				if t == "(" {
					depth++
				} else if t == ")" {
					depth--
				}
			}
			return 0, false
		}
		return 0, false
	}
	if next() != "(" {
		return
	}
	for pos < len(toks) {
		t := next()
		if t != "(" {
			break
		}
		name := next()
		v, ok := parseVal()
		if ok {
			model[name] = v
		}
		next() // )
	}
}

func tokenize(s string) []string {
	var toks []string
	i := 0
	for i < len(s) {
		c := s[i]
		switch {
		case c == '(' || c == ')':
			toks = append(toks, string(c))
			i++
		case c == ' ' || c == '\n' || c == '\t' || c == '\r':
			i++
		default:
			j := i
			for j < len(s) && !strings.ContainsRune("() \n\t\r", rune(s[j])) {
				j++
			}
			toks = append(toks, s[i:j])
			i = j
		}
	}
	return toks
}
