// Package smt: hash-consed SMT terms over Bool, bit-vectors (width 1..64) and Float64,
// with constant folding and light simplification.
package smt

import (
	"fmt"
	"math"
	"math/bits"
	"strconv"
	"strings"
)

type Kind uint8

const (
	KBool Kind = iota
	KBV
	KFP // Float64 only
)

type Sort struct {
	K Kind
	W int // bit width for BV
}

var (
	Bool = Sort{KBool, 0}
	FP64 = Sort{KFP, 64}
)

func BV(w int) Sort { return Sort{KBV, w} }

func (s Sort) String() string {
	switch s.K {
	case KBool:
		return "Bool"
	case KBV:
		return fmt.Sprintf("(_ BitVec %d)", s.W)
	default:
		return "(_ FloatingPoint 11 53)"
	}
}

type Op uint8

const (
	OConst Op = iota
	OVar
	ONot
	OAnd
	OOr
	OEq
	OIte
	OBvAdd
	OBvSub
	OBvMul
	OBvUDiv
	OBvURem
	OBvSDiv
	OBvSRem
	OBvAnd
	OBvOr
	OBvXor
	OBvShl
	OBvLshr
	OBvAshr
	OBvNot
	OBvNeg
	OUlt
	OUle
	OSlt
	OSle
	OZext   // P1 = new width
	OSext   // P1 = new width
	OExtract // P1 = hi, P2 = lo
	OConcat
	// floating point
	OFAdd
	OFSub
	OFMul
	OFDiv
	OFNeg
	OFLt
	OFLe
	OFEq    // IEEE equality
	OFIsNaN
	OFIsInf
	OFFromS // signed bv -> fp
	OFFromU
	OFToS   // fp -> signed bv (RTZ), P1 = width
	OFToU
	OFFromBits // bv64 -> fp (reinterpret)
	OFAbs
)

var opNames = map[Op]string{
	ONot: "not", OAnd: "and", OOr: "or", OEq: "=", OIte: "ite",
	OBvAdd: "bvadd", OBvSub: "bvsub", OBvMul: "bvmul", OBvUDiv: "bvudiv", OBvURem: "bvurem",
	OBvSDiv: "bvsdiv", OBvSRem: "bvsrem", OBvAnd: "bvand", OBvOr: "bvor", OBvXor: "bvxor",
	OBvShl: "bvshl", OBvLshr: "bvlshr", OBvAshr: "bvashr", OBvNot: "bvnot", OBvNeg: "bvneg",
	OUlt: "bvult", OUle: "bvule", OSlt: "bvslt", OSle: "bvsle", OConcat: "concat",
	OFAdd: "fp.add RNE", OFSub: "fp.sub RNE", OFMul: "fp.mul RNE", OFDiv: "fp.div RNE", OFNeg: "fp.neg",
	OFLt: "fp.lt", OFLe: "fp.leq", OFEq: "fp.eq", OFIsNaN: "fp.isNaN", OFIsInf: "fp.isInfinite", OFAbs: "fp.abs",
}

type Term struct {
	Op   Op
	S    Sort
	Args []*Term
	Val  uint64 // constant BV / bool (0/1) / float bits
	Name string // variables
	P1   int
	P2   int
	ID   int
}

type key struct {
	op         Op
	s          Sort
	a0, a1, a2 int
	val        uint64
	name       string
	p1, p2     int
}

var (
	table  = map[key]*Term{}
	nextID = 1
	True   *Term
	False  *Term
)

func init() {
	True = mk(OConst, Bool, 1, "", 0, 0)
	False = mk(OConst, Bool, 0, "", 0, 0)
}

// NumTerms reports how many distinct terms exist.
func NumTerms() int { return nextID - 1 }

func mk(op Op, s Sort, val uint64, name string, p1, p2 int, args ...*Term) *Term {
	k := key{op: op, s: s, val: val, name: name, p1: p1, p2: p2}
	if len(args) > 3 {
		panic("smt: too many args")
	}
	if len(args) > 0 {
		k.a0 = args[0].ID
	}
	if len(args) > 1 {
		k.a1 = args[1].ID
	}
	if len(args) > 2 {
		k.a2 = args[2].ID
	}
	if t, ok := table[k]; ok {
		return t
	}
	t := &Term{Op: op, S: s, Val: val, Name: name, P1: p1, P2: p2, ID: nextID}
	if len(args) > 0 {
		t.Args = append([]*Term(nil), args...)
	}
	nextID++
	table[k] = t
	return t
}

func mask(w int) uint64 {
	if w >= 64 {
		return ^uint64(0)
	}
	return (uint64(1) << uint(w)) - 1
}

func (t *Term) IsConst() bool { return t.Op == OConst }
func (t *Term) IsTrue() bool  { return t == True }
func (t *Term) IsFalse() bool { return t == False }

// SInt returns the constant as a sign-extended int64.
func (t *Term) SInt() int64 {
	w := t.S.W
	v := t.Val
	if w < 64 && v&(uint64(1)<<uint(w-1)) != 0 {
		v |= ^mask(w)
	}
	return int64(v)
}

func (t *Term) Float() float64 { return math.Float64frombits(t.Val) }

func B(b bool) *Term {
	if b {
		return True
	}
	return False
}

var smallConst [65][]*Term

func Const(w int, v uint64) *Term {
	v &= mask(w)
	if v < 256 && w <= 64 {
		tab := smallConst[w]
		if tab == nil {
			tab = make([]*Term, 256)
			smallConst[w] = tab
		}
		if t := tab[v]; t != nil {
			return t
		}
		t := mk(OConst, BV(w), v, "", 0, 0)
		tab[v] = t
		return t
	}
	return mk(OConst, BV(w), v, "", 0, 0)
}
func ConstS(w int, v int64) *Term { return Const(w, uint64(v)) }
func ConstF(f float64) *Term      { return mk(OConst, FP64, math.Float64bits(f), "", 0, 0) }
func Var(name string, s Sort) *Term {
	return mk(OVar, s, 0, name, 0, 0)
}

func Not(a *Term) *Term {
	if a.IsConst() {
		return B(a.Val == 0)
	}
	if a.Op == ONot {
		return a.Args[0]
	}
	return mk(ONot, Bool, 0, "", 0, 0, a)
}

func And(a, b *Term) *Term {
	if a.IsFalse() || b.IsFalse() {
		return False
	}
	if a.IsTrue() {
		return b
	}
	if b.IsTrue() {
		return a
	}
	if a == b {
		return a
	}
	if a == Not(b) {
		return False
	}
	if a.ID > b.ID {
		a, b = b, a
	}
	return mk(OAnd, Bool, 0, "", 0, 0, a, b)
}

func Or(a, b *Term) *Term {
	if a.IsTrue() || b.IsTrue() {
		return True
	}
	if a.IsFalse() {
		return b
	}
	if b.IsFalse() {
		return a
	}
	if a == b {
		return a
	}
	if a == Not(b) {
		return True
	}
	if a.ID > b.ID {
		a, b = b, a
	}
	return mk(OOr, Bool, 0, "", 0, 0, a, b)
}

func AndN(ts ...*Term) *Term {
	r := True
	for _, t := range ts {
		r = And(r, t)
	}
	return r
}

func OrN(ts ...*Term) *Term {
	r := False
	for _, t := range ts {
		r = Or(r, t)
	}
	return r
}

func Implies(a, b *Term) *Term { return Or(Not(a), b) }

func Eq(a, b *Term) *Term {
	if a.S != b.S {
		panic(fmt.Sprintf("smt.Eq: sort mismatch %v %v", a.S, b.S))
	}
	if a == b {
		if a.S.K == KFP {
			// structural equality on FP: same term => equal (SMT = is bitwise on non-NaN, NaN = NaN true)
			return True
		}
		return True
	}
	if a.IsConst() && b.IsConst() {
		return B(a.Val == b.Val)
	}
	if a.S.K == KBool {
		if a.IsConst() {
			a, b = b, a
		}
		if b.IsTrue() {
			return a
		}
		if b.IsFalse() {
			return Not(a)
		}
	}
	if a.S.K == KBV {
		// ite(c, k1, k2) == k  with constants
		if b.IsConst() && a.Op == OIte && a.Args[1].IsConst() && a.Args[2].IsConst() {
			return iteBool(a.Args[0], B(a.Args[1].Val == b.Val), B(a.Args[2].Val == b.Val))
		}
		if a.IsConst() && b.Op == OIte && b.Args[1].IsConst() && b.Args[2].IsConst() {
			return iteBool(b.Args[0], B(b.Args[1].Val == a.Val), B(b.Args[2].Val == a.Val))
		}
		// zext(x) == const
		if b.IsConst() && a.Op == OZext {
			in := a.Args[0]
			if b.Val&^mask(in.S.W) != 0 {
				return False
			}
			return Eq(in, Const(in.S.W, b.Val))
		}
		if a.IsConst() && b.Op == OZext {
			return Eq(b, a)
		}
	}
	if a.ID > b.ID {
		a, b = b, a
	}
	return mk(OEq, Bool, 0, "", 0, 0, a, b)
}

func iteBool(c, a, b *Term) *Term {
	if a.IsTrue() && b.IsFalse() {
		return c
	}
	if a.IsFalse() && b.IsTrue() {
		return Not(c)
	}
	return Ite(c, a, b)
}

func Ite(c, a, b *Term) *Term {
	if a.S != b.S {
		panic(fmt.Sprintf("smt.Ite: sort mismatch %v %v", a.S, b.S))
	}
	if c.IsTrue() {
		return a
	}
	if c.IsFalse() {
		return b
	}
	if a == b {
		return a
	}
	if a.S.K == KBool {
		if a.IsTrue() && b.IsFalse() {
			return c
		}
		if a.IsFalse() && b.IsTrue() {
			return Not(c)
		}
		if a.IsTrue() {
			return Or(c, b)
		}
		if a.IsFalse() {
			return And(Not(c), b)
		}
		if b.IsTrue() {
			return Or(Not(c), a)
		}
		if b.IsFalse() {
			return And(c, a)
		}
	}
	if c.Op == ONot {
		return Ite(c.Args[0], b, a)
	}
	return mk(OIte, a.S, 0, "", 0, 0, c, a, b)
}

func checkBV2(a, b *Term, what string) int {
	if a.S.K != KBV || a.S != b.S {
		panic(fmt.Sprintf("smt.%s: sort mismatch %v %v", what, a.S, b.S))
	}
	return a.S.W
}

func Add(a, b *Term) *Term {
	w := checkBV2(a, b, "Add")
	if a.IsConst() && b.IsConst() {
		return Const(w, a.Val+b.Val)
	}
	if a.IsConst() {
		a, b = b, a
	}
	if b.IsConst() {
		if b.Val == 0 {
			return a
		}
		// (x + c1) + c2
		if a.Op == OBvAdd && a.Args[1].IsConst() {
			return Add(a.Args[0], Const(w, a.Args[1].Val+b.Val))
		}
		return mk(OBvAdd, a.S, 0, "", 0, 0, a, b)
	}
	if a.ID > b.ID {
		a, b = b, a
	}
	return mk(OBvAdd, a.S, 0, "", 0, 0, a, b)
}

func Sub(a, b *Term) *Term {
	w := checkBV2(a, b, "Sub")
	if a.IsConst() && b.IsConst() {
		return Const(w, a.Val-b.Val)
	}
	if b.IsConst() {
		return Add(a, Const(w, -b.Val))
	}
	if a == b {
		return Const(w, 0)
	}
	return mk(OBvSub, a.S, 0, "", 0, 0, a, b)
}

func Mul(a, b *Term) *Term {
	w := checkBV2(a, b, "Mul")
	if a.IsConst() && b.IsConst() {
		return Const(w, a.Val*b.Val)
	}
	if a.IsConst() {
		a, b = b, a
	}
	if b.IsConst() {
		if b.Val == 0 {
			return b
		}
		if b.Val == 1 {
			return a
		}
	}
	return mk(OBvMul, a.S, 0, "", 0, 0, a, b)
}

// UDiv: caller guarantees b != 0 (Go panics otherwise).
func UDiv(a, b *Term) *Term {
	w := checkBV2(a, b, "UDiv")
	if a.IsConst() && b.IsConst() && b.Val != 0 {
		return Const(w, a.Val/b.Val)
	}
	if b.IsConst() && b.Val == 1 {
		return a
	}
	return mk(OBvUDiv, a.S, 0, "", 0, 0, a, b)
}

func URem(a, b *Term) *Term {
	w := checkBV2(a, b, "URem")
	if a.IsConst() && b.IsConst() && b.Val != 0 {
		return Const(w, a.Val%b.Val)
	}
	return mk(OBvURem, a.S, 0, "", 0, 0, a, b)
}

func SDiv(a, b *Term) *Term {
	w := checkBV2(a, b, "SDiv")
	if a.IsConst() && b.IsConst() && b.Val != 0 {
		x, y := a.SInt(), b.SInt()
		if y == -1 {
			return Const(w, uint64(-x))
		}
		return Const(w, uint64(x/y))
	}
	if b.IsConst() && b.Val == 1 {
		return a
	}
	return mk(OBvSDiv, a.S, 0, "", 0, 0, a, b)
}

func SRem(a, b *Term) *Term {
	w := checkBV2(a, b, "SRem")
	if a.IsConst() && b.IsConst() && b.Val != 0 {
		x, y := a.SInt(), b.SInt()
		if y == -1 {
			return Const(w, 0)
		}
		return Const(w, uint64(x%y))
	}
	return mk(OBvSRem, a.S, 0, "", 0, 0, a, b)
}

func BvAnd(a, b *Term) *Term {
	w := checkBV2(a, b, "BvAnd")
	if a.IsConst() && b.IsConst() {
		return Const(w, a.Val&b.Val)
	}
	if a.IsConst() {
		a, b = b, a
	}
	if b.IsConst() {
		if b.Val == 0 {
			return b
		}
		if b.Val == mask(w) {
			return a
		}
	}
	if a == b {
		return a
	}
	return mk(OBvAnd, a.S, 0, "", 0, 0, a, b)
}

func BvOr(a, b *Term) *Term {
	w := checkBV2(a, b, "BvOr")
	if a.IsConst() && b.IsConst() {
		return Const(w, a.Val|b.Val)
	}
	if a.IsConst() {
		a, b = b, a
	}
	if b.IsConst() {
		if b.Val == 0 {
			return a
		}
		if b.Val == mask(w) {
			return b
		}
	}
	if a == b {
		return a
	}
	return mk(OBvOr, a.S, 0, "", 0, 0, a, b)
}

func BvXor(a, b *Term) *Term {
	w := checkBV2(a, b, "BvXor")
	if a.IsConst() && b.IsConst() {
		return Const(w, a.Val^b.Val)
	}
	if a.IsConst() {
		a, b = b, a
	}
	if b.IsConst() && b.Val == 0 {
		return a
	}
	if a == b {
		return Const(w, 0)
	}
	return mk(OBvXor, a.S, 0, "", 0, 0, a, b)
}

func BvNot(a *Term) *Term {
	if a.IsConst() {
		return Const(a.S.W, ^a.Val)
	}
	if a.Op == OBvNot {
		return a.Args[0]
	}
	return mk(OBvNot, a.S, 0, "", 0, 0, a)
}

func Neg(a *Term) *Term {
	if a.IsConst() {
		return Const(a.S.W, -a.Val)
	}
	return mk(OBvNeg, a.S, 0, "", 0, 0, a)
}

// Shl etc: b has the same width as a (caller converts). Go semantics: shift >= width gives 0
// (or sign fill); SMT-LIB bvshl has the same semantics for amounts >= width.
func Shl(a, b *Term) *Term {
	w := checkBV2(a, b, "Shl")
	if b.IsConst() {
		if b.Val == 0 {
			return a
		}
		if a.IsConst() {
			if b.Val >= uint64(w) {
				return Const(w, 0)
			}
			return Const(w, a.Val<<b.Val)
		}
	}
	return mk(OBvShl, a.S, 0, "", 0, 0, a, b)
}

func Lshr(a, b *Term) *Term {
	w := checkBV2(a, b, "Lshr")
	if b.IsConst() {
		if b.Val == 0 {
			return a
		}
		if a.IsConst() {
			if b.Val >= uint64(w) {
				return Const(w, 0)
			}
			return Const(w, a.Val>>b.Val)
		}
		if b.Val < uint64(w) {
			// extract is friendlier for folding
			return Zext(Extract(a, w-1, int(b.Val)), w)
		}
		return Const(w, 0)
	}
	return mk(OBvLshr, a.S, 0, "", 0, 0, a, b)
}

func Ashr(a, b *Term) *Term {
	w := checkBV2(a, b, "Ashr")
	if b.IsConst() {
		if b.Val == 0 {
			return a
		}
		if a.IsConst() {
			sh := b.Val
			if sh >= uint64(w) {
				sh = uint64(w - 1)
			}
			return Const(w, uint64(a.SInt()>>sh))
		}
	}
	return mk(OBvAshr, a.S, 0, "", 0, 0, a, b)
}

func Ult(a, b *Term) *Term {
	checkBV2(a, b, "Ult")
	if a.IsConst() && b.IsConst() {
		return B(a.Val < b.Val)
	}
	if a == b {
		return False
	}
	if b.IsConst() && b.Val == 0 {
		return False
	}
	if a.Op == OZext && b.IsConst() {
		in := a.Args[0]
		if b.Val > mask(in.S.W) {
			return True
		}
		return Ult(in, Const(in.S.W, b.Val))
	}
	if b.Op == OZext && a.IsConst() {
		in := b.Args[0]
		if a.Val >= mask(in.S.W) {
			return False
		}
		return Ult(Const(in.S.W, a.Val), in)
	}
	return mk(OUlt, Bool, 0, "", 0, 0, a, b)
}

func Ule(a, b *Term) *Term { return Not(Ult(b, a)) }

func Slt(a, b *Term) *Term {
	w := checkBV2(a, b, "Slt")
	if a.IsConst() && b.IsConst() {
		return B(a.SInt() < b.SInt())
	}
	if a == b {
		return False
	}
	// zext values are non-negative when widened
	if a.Op == OZext && a.Args[0].S.W < w && b.IsConst() {
		if b.SInt() <= 0 {
			return False
		}
		return Ult(a, b)
	}
	if b.Op == OZext && b.Args[0].S.W < w && a.IsConst() {
		if a.SInt() < 0 {
			return True
		}
		return Ult(a, b)
	}
	return mk(OSlt, Bool, 0, "", 0, 0, a, b)
}

func Sle(a, b *Term) *Term { return Not(Slt(b, a)) }

func Zext(a *Term, w int) *Term {
	if a.S.K != KBV {
		panic("smt.Zext: not BV")
	}
	if a.S.W == w {
		return a
	}
	if a.S.W > w {
		panic("smt.Zext: narrowing")
	}
	if a.IsConst() {
		return Const(w, a.Val)
	}
	if a.Op == OZext {
		return Zext(a.Args[0], w)
	}
	if a.Op == OIte && a.Args[1].IsConst() && a.Args[2].IsConst() {
		return Ite(a.Args[0], Const(w, a.Args[1].Val), Const(w, a.Args[2].Val))
	}
	return mk(OZext, BV(w), 0, "", w, 0, a)
}

func Sext(a *Term, w int) *Term {
	if a.S.W == w {
		return a
	}
	if a.S.W > w {
		panic("smt.Sext: narrowing")
	}
	if a.IsConst() {
		return Const(w, uint64(a.SInt()))
	}
	if a.Op == OZext && a.Args[0].S.W < a.S.W {
		return Zext(a.Args[0], w)
	}
	return mk(OSext, BV(w), 0, "", w, 0, a)
}

func Extract(a *Term, hi, lo int) *Term {
	if a.S.K != KBV || hi < lo || hi >= a.S.W || lo < 0 {
		panic(fmt.Sprintf("smt.Extract: bad range %d:%d of %v", hi, lo, a.S))
	}
	w := hi - lo + 1
	if w == a.S.W {
		return a
	}
	if a.IsConst() {
		return Const(w, a.Val>>uint(lo))
	}
	switch a.Op {
	case OZext, OSext:
		in := a.Args[0]
		if hi < in.S.W {
			return Extract(in, hi, lo)
		}
		if a.Op == OZext && lo >= in.S.W {
			return Const(w, 0)
		}
		if a.Op == OZext && lo == 0 {
			return Zext(in, w)
		}
		if a.Op == OSext && lo == 0 {
			return Sext(in, w)
		}
	case OExtract:
		return Extract(a.Args[0], a.P2+hi, a.P2+lo)
	case OConcat:
		lw := a.Args[1].S.W
		if hi < lw {
			return Extract(a.Args[1], hi, lo)
		}
		if lo >= lw {
			return Extract(a.Args[0], hi-lw, lo-lw)
		}
	case OIte:
		if a.Args[1].IsConst() && a.Args[2].IsConst() {
			return Ite(a.Args[0], Extract(a.Args[1], hi, lo), Extract(a.Args[2], hi, lo))
		}
	case OBvAnd, OBvOr, OBvXor:
		if lo == 0 || a.Args[1].IsConst() {
			x, y := Extract(a.Args[0], hi, lo), Extract(a.Args[1], hi, lo)
			switch a.Op {
			case OBvAnd:
				return BvAnd(x, y)
			case OBvOr:
				return BvOr(x, y)
			default:
				return BvXor(x, y)
			}
		}
	case OBvAdd, OBvSub, OBvMul:
		if lo == 0 {
			x, y := Extract(a.Args[0], hi, 0), Extract(a.Args[1], hi, 0)
			switch a.Op {
			case OBvAdd:
				return Add(x, y)
			case OBvSub:
				return Sub(x, y)
			default:
				return Mul(x, y)
			}
		}
	}
	return mk(OExtract, BV(w), 0, "", hi, lo, a)
}

func Concat(hi, lo *Term) *Term {
	w := hi.S.W + lo.S.W
	if w > 64 {
		panic("smt.Concat: too wide")
	}
	if hi.IsConst() && lo.IsConst() {
		return Const(w, hi.Val<<uint(lo.S.W)|lo.Val)
	}
	if hi.IsConst() && hi.Val == 0 {
		return Zext(lo, w)
	}
	return mk(OConcat, BV(w), 0, "", 0, 0, hi, lo)
}

// ---- floating point ----

func fbin(op Op, a, b *Term, f func(x, y float64) float64) *Term {
	if a.IsConst() && b.IsConst() {
		return ConstF(f(a.Float(), b.Float()))
	}
	return mk(op, FP64, 0, "", 0, 0, a, b)
}

func FAdd(a, b *Term) *Term { return fbin(OFAdd, a, b, func(x, y float64) float64 { return x + y }) }
func FSub(a, b *Term) *Term { return fbin(OFSub, a, b, func(x, y float64) float64 { return x - y }) }
func FMul(a, b *Term) *Term { return fbin(OFMul, a, b, func(x, y float64) float64 { return x * y }) }
func FDiv(a, b *Term) *Term { return fbin(OFDiv, a, b, func(x, y float64) float64 { return x / y }) }
func FNeg(a *Term) *Term {
	if a.IsConst() {
		return ConstF(-a.Float())
	}
	return mk(OFNeg, FP64, 0, "", 0, 0, a)
}
func FAbs(a *Term) *Term {
	if a.IsConst() {
		return ConstF(math.Abs(a.Float()))
	}
	return mk(OFAbs, FP64, 0, "", 0, 0, a)
}
func FLt(a, b *Term) *Term {
	if a.IsConst() && b.IsConst() {
		return B(a.Float() < b.Float())
	}
	return mk(OFLt, Bool, 0, "", 0, 0, a, b)
}
func FLe(a, b *Term) *Term {
	if a.IsConst() && b.IsConst() {
		return B(a.Float() <= b.Float())
	}
	return mk(OFLe, Bool, 0, "", 0, 0, a, b)
}
func FEq(a, b *Term) *Term {
	if a.IsConst() && b.IsConst() {
		return B(a.Float() == b.Float())
	}
	return mk(OFEq, Bool, 0, "", 0, 0, a, b)
}
func FIsNaN(a *Term) *Term {
	if a.IsConst() {
		return B(math.IsNaN(a.Float()))
	}
	return mk(OFIsNaN, Bool, 0, "", 0, 0, a)
}
func FIsInf(a *Term) *Term {
	if a.IsConst() {
		return B(math.IsInf(a.Float(), 0))
	}
	return mk(OFIsInf, Bool, 0, "", 0, 0, a)
}
func FFromS(a *Term) *Term {
	if a.IsConst() {
		return ConstF(float64(a.SInt()))
	}
	return mk(OFFromS, FP64, 0, "", 0, 0, a)
}
func FFromU(a *Term) *Term {
	if a.IsConst() {
		return ConstF(float64(a.Val))
	}
	return mk(OFFromU, FP64, 0, "", 0, 0, a)
}

// FToS converts with round-toward-zero. The result for out-of-range/NaN inputs is
// unspecified in SMT-LIB; callers wrap it with the amd64 behaviour.
func FToS(a *Term, w int) *Term {
	return mk(OFToS, BV(w), 0, "", w, 0, a)
}
func FToU(a *Term, w int) *Term {
	return mk(OFToU, BV(w), 0, "", w, 0, a)
}
func FFromBits(a *Term) *Term {
	if a.IsConst() {
		return mk(OConst, FP64, a.Val, "", 0, 0)
	}
	return mk(OFFromBits, FP64, 0, "", 0, 0, a)
}

// ---- printing ----

func (t *Term) constString() string {
	switch t.S.K {
	case KBool:
		if t.Val != 0 {
			return "true"
		}
		return "false"
	case KBV:
		if t.S.W%4 == 0 {
			return fmt.Sprintf("#x%0*x", t.S.W/4, t.Val)
		}
		return fmt.Sprintf("#b%0*b", t.S.W, t.Val)
	default:
		b := t.Val
		return fmt.Sprintf("(fp #b%b #b%011b #b%052b)", b>>63, (b>>52)&0x7ff, b&((1<<52)-1))
	}
}

// Ref is how a term is referenced in emitted SMT text: constants inline, variables by
// name, others by their definition name.
func (t *Term) Ref() string {
	switch t.Op {
	case OConst:
		return t.constString()
	case OVar:
		return t.Name
	}
	return "t" + strconv.Itoa(t.ID)
}

// Body prints the defining expression of a non-leaf term in terms of Refs of its args.
func (t *Term) Body() string {
	var sb strings.Builder
	switch t.Op {
	case OZext:
		fmt.Fprintf(&sb, "((_ zero_extend %d) %s)", t.P1-t.Args[0].S.W, t.Args[0].Ref())
	case OSext:
		fmt.Fprintf(&sb, "((_ sign_extend %d) %s)", t.P1-t.Args[0].S.W, t.Args[0].Ref())
	case OExtract:
		fmt.Fprintf(&sb, "((_ extract %d %d) %s)", t.P1, t.P2, t.Args[0].Ref())
	case OFFromS:
		fmt.Fprintf(&sb, "((_ to_fp 11 53) RNE %s)", t.Args[0].Ref())
	case OFFromU:
		fmt.Fprintf(&sb, "((_ to_fp_unsigned 11 53) RNE %s)", t.Args[0].Ref())
	case OFToS:
		fmt.Fprintf(&sb, "((_ fp.to_sbv %d) RTZ %s)", t.P1, t.Args[0].Ref())
	case OFToU:
		fmt.Fprintf(&sb, "((_ fp.to_ubv %d) RTZ %s)", t.P1, t.Args[0].Ref())
	case OFFromBits:
		fmt.Fprintf(&sb, "((_ to_fp 11 53) %s)", t.Args[0].Ref())
	default:
		name, ok := opNames[t.Op]
		if !ok {
			panic(fmt.Sprintf("smt: no name for op %d", t.Op))
		}
		sb.WriteString("(")
		sb.WriteString(name)
		for _, a := range t.Args {
			sb.WriteString(" ")
			sb.WriteString(a.Ref())
		}
		sb.WriteString(")")
	}
	return sb.String()
}

// String prints a fully expanded expression (debugging, small terms only).
func (t *Term) String() string {
	switch t.Op {
	case OConst:
		if t.S.K == KBV {
			return fmt.Sprintf("%d:%d", t.Val, t.S.W)
		}
		if t.S.K == KFP {
			return fmt.Sprint(t.Float())
		}
		return t.constString()
	case OVar:
		return t.Name
	}
	var sb strings.Builder
	sb.WriteString("(")
	switch t.Op {
	case OZext:
		fmt.Fprintf(&sb, "zext%d", t.P1)
	case OSext:
		fmt.Fprintf(&sb, "sext%d", t.P1)
	case OExtract:
		fmt.Fprintf(&sb, "extract[%d:%d]", t.P1, t.P2)
	default:
		if n, ok := opNames[t.Op]; ok {
			sb.WriteString(n)
		} else {
			fmt.Fprintf(&sb, "op%d", t.Op)
		}
	}
	for _, a := range t.Args {
		sb.WriteString(" ")
		sb.WriteString(a.String())
	}
	sb.WriteString(")")
	return sb.String()
}

// Eval evaluates t under an assignment of variables (by name). Missing variables are 0.
func Eval(t *Term, env map[string]uint64) uint64 {
	memo := map[*Term]uint64{}
	var ev func(t *Term) uint64
	ev = func(t *Term) uint64 {
		if t.Op == OConst {
			return t.Val
		}
		if v, ok := memo[t]; ok {
			return v
		}
		var r uint64
		a := func(i int) uint64 { return ev(t.Args[i]) }
		sa := func(i int) int64 {
			x := t.Args[i]
			w := x.S.W
			v := ev(x)
			if w < 64 && v&(uint64(1)<<uint(w-1)) != 0 {
				v |= ^mask(w)
			}
			return int64(v)
		}
		fa := func(i int) float64 { return math.Float64frombits(ev(t.Args[i])) }
		b2u := func(b bool) uint64 {
			if b {
				return 1
			}
			return 0
		}
		w := t.S.W
		switch t.Op {
		case OVar:
			r = env[t.Name]
		case ONot:
			r = 1 - a(0)
		case OAnd:
			r = a(0) & a(1)
		case OOr:
			r = a(0) | a(1)
		case OEq:
			r = b2u(a(0) == a(1))
		case OIte:
			if a(0) != 0 {
				r = a(1)
			} else {
				r = a(2)
			}
		case OBvAdd:
			r = a(0) + a(1)
		case OBvSub:
			r = a(0) - a(1)
		case OBvMul:
			r = a(0) * a(1)
		case OBvUDiv:
			if a(1) == 0 {
				r = mask(w)
			} else {
				r = a(0) / a(1)
			}
		case OBvURem:
			if a(1) == 0 {
				r = a(0)
			} else {
				r = a(0) % a(1)
			}
		case OBvSDiv:
			if sa(1) == 0 {
				if sa(0) < 0 {
					r = 1
				} else {
					r = mask(w)
				}
			} else if sa(1) == -1 {
				r = uint64(-sa(0))
			} else {
				r = uint64(sa(0) / sa(1))
			}
		case OBvSRem:
			if sa(1) == 0 {
				r = a(0)
			} else if sa(1) == -1 {
				r = 0
			} else {
				r = uint64(sa(0) % sa(1))
			}
		case OBvAnd:
			r = a(0) & a(1)
		case OBvOr:
			r = a(0) | a(1)
		case OBvXor:
			r = a(0) ^ a(1)
		case OBvShl:
			if a(1) >= uint64(w) {
				r = 0
			} else {
				r = a(0) << a(1)
			}
		case OBvLshr:
			if a(1) >= uint64(w) {
				r = 0
			} else {
				r = a(0) >> a(1)
			}
		case OBvAshr:
			sh := a(1)
			if sh >= uint64(w) {
				sh = uint64(w - 1)
			}
			r = uint64(sa(0) >> sh)
		case OBvNot:
			r = ^a(0)
		case OBvNeg:
			r = -a(0)
		case OUlt:
			r = b2u(a(0) < a(1))
		case OUle:
			r = b2u(a(0) <= a(1))
		case OSlt:
			r = b2u(sa(0) < sa(1))
		case OSle:
			r = b2u(sa(0) <= sa(1))
		case OZext:
			r = a(0)
		case OSext:
			r = uint64(sa(0))
		case OExtract:
			r = a(0) >> uint(t.P2)
		case OConcat:
			r = a(0)<<uint(t.Args[1].S.W) | a(1)
		case OFAdd:
			r = math.Float64bits(fa(0) + fa(1))
		case OFSub:
			r = math.Float64bits(fa(0) - fa(1))
		case OFMul:
			r = math.Float64bits(fa(0) * fa(1))
		case OFDiv:
			r = math.Float64bits(fa(0) / fa(1))
		case OFNeg:
			r = math.Float64bits(-fa(0))
		case OFAbs:
			r = math.Float64bits(math.Abs(fa(0)))
		case OFLt:
			r = b2u(fa(0) < fa(1))
		case OFLe:
			r = b2u(fa(0) <= fa(1))
		case OFEq:
			r = b2u(fa(0) == fa(1))
		case OFIsNaN:
			r = b2u(math.IsNaN(fa(0)))
		case OFIsInf:
			r = b2u(math.IsInf(fa(0), 0))
		case OFFromS:
			r = math.Float64bits(float64(sa(0)))
		case OFFromU:
			r = math.Float64bits(float64(a(0)))
		case OFToS:
			r = uint64(int64(fa(0)))
		case OFToU:
			r = uint64(fa(0))
		case OFFromBits:
			r = a(0)
		default:
			panic("smt.Eval: op")
		}
		if t.S.K == KBV {
			r &= mask(w)
		}
		memo[t] = r
		return r
	}
	return ev(t)
}

var _ = bits.Len
