package main

import (
	"runtime/debug"
	"runtime/pprof"
	"encoding/json"
	"flag"
	"fmt"
	"os"
	"sort"
	"strconv"
	"strings"
	"time"

	"golang.org/x/tools/go/packages"
	"golang.org/x/tools/go/ssa"
	"golang.org/x/tools/go/ssa/ssautil"
	"symgo/exec"
	"symgo/smt"
)

type overlayFlag map[string]string

func (o overlayFlag) String() string { return "" }
func (o overlayFlag) Set(s string) error {
	i := strings.Index(s, "=")
	if i < 0 {
		return fmt.Errorf("overlay must be virtual=real")
	}
	o[s[:i]] = s[i+1:]
	return nil
}

type Result struct {
	Entry        string                     `json:"entry"`
	Package      string                     `json:"package"`
	Params       map[string]int             `json:"params"`
	Paths        int                        `json:"paths"`
	PathOutcomes map[string]int             `json:"path_outcomes"`
	Instrs       int64                      `json:"instrs"`
	FeasQueries  int                        `json:"feasibility_queries"`
	Queries      int                        `json:"queries"`
	Sat          int                        `json:"sat"`
	Unsat        int                        `json:"unsat"`
	Unknown      int                        `json:"unknown"`
	SolverS      float64                    `json:"solver_s"`
	WallS        float64                    `json:"wall_s"`
	LoadS        float64                    `json:"load_s"`
	Labels       map[string]*exec.LabelStat `json:"labels"`
	Reach        map[string]int             `json:"reach"`
	Cexs         []*exec.Cex                `json:"cexs"`
	Witnesses    []*exec.Cex                `json:"witnesses"`
	Unsupported  map[string]int             `json:"unsupported"`
	BoundHits    map[string]int             `json:"bound_hits"`
	Funcs        []string                   `json:"functions_encoded"`
	Samples      []map[string]interface{}   `json:"samples"`
	Truncated    string                     `json:"truncated,omitempty"`
	SolverErrors []string                   `json:"solver_errors,omitempty"`
	EngineErrors []string                   `json:"engine_errors,omitempty"`
	Assumptions  []string                   `json:"assumptions"`
	Solver       string                     `json:"solver"`
	MaxDepth     int                        `json:"max_depth"`
	Terms        int                        `json:"terms"`
	LoadError    string                     `json:"load_error,omitempty"`
	UnknownNotes []string                   `json:"unknown_notes,omitempty"`
	Pending      [][]exec.PendingDecision   `json:"pending,omitempty"`
	FreshRetries int                        `json:"fresh_retries"`
	FreshDecided int                        `json:"fresh_decided"`
}

func main() {
	repo := flag.String("repo", "/repo", "repository root")
	pkgPath := flag.String("pkg", "", "package pattern (relative to repo), e.g. ./content")
	entry := flag.String("entry", "", "harness entry function")
	out := flag.String("out", "", "result json")
	solverKind := flag.String("solver", "z3", "z3|z3-new|cvc5")
	timeoutMs := flag.Int("qtimeout", 10000, "per-query timeout ms")
	maxPaths := flag.Int("maxpaths", 0, "")
	maxSteps := flag.Int64("maxsteps", 0, "")
	unwind := flag.Int("unwind", 0, "")
	tlimit := flag.Duration("timeout", 0, "exploration time limit")
	verbose := flag.Int("v", 0, "")
	smtlog := flag.String("smtlog", "", "")
	params := flag.String("params", "", "k=v,k=v")
	shard := flag.String("shard", "", "i/n")
	budget := flag.Duration("budget", 0, "stop after this long and write the unexplored prefixes to the result (pending)")
	bfs := flag.Bool("bfs", false, "explore breadth-first")
	resume := flag.String("resume", "", "JSON file with a list of prefixes to explore instead of starting at the root")
	witnesses := flag.Int("witnesses", 0, "number of ok-path input models to emit for native cross-validation")
	ov := overlayFlag{}
	flag.Var(ov, "overlay", "virtual=real (repeatable)")
	runInit := flag.String("runinit", "", "comma-separated packages whose init is run although normally skipped (packages replaced by a source model)")
	cpuprof := flag.String("cpuprofile", "", "")
	flag.Parse()
	debug.SetGCPercent(400)
	if *cpuprof != "" {
		f, _ := os.Create(*cpuprof)
		pprof.StartCPUProfile(f)
		defer pprof.StopCPUProfile()
	}

	res := &Result{Entry: *entry, Package: *pkgPath, Params: map[string]int{}, Solver: *solverKind}
	t0 := time.Now()
	writeOut := func() {
		res.WallS = time.Since(t0).Seconds()
		b, _ := json.MarshalIndent(res, "", " ")
		if *out != "" {
			os.WriteFile(*out, b, 0o644)
		} else {
			os.Stdout.Write(b)
			fmt.Println()
		}
	}
	overlay := map[string][]byte{}
	for v, r := range ov {
		b, err := os.ReadFile(r)
		if err != nil {
			res.LoadError = err.Error()
			writeOut()
			os.Exit(3)
		}
		overlay[v] = b
	}
	for _, p := range strings.Split(*runInit, ",") {
		if p != "" {
			exec.RunInit(p)
		}
	}
	cfg := &packages.Config{Mode: packages.LoadAllSyntax, Dir: *repo, BuildFlags: []string{"-tags=verif"}, Overlay: overlay}
	pkgs, err := packages.Load(cfg, *pkgPath)
	if err != nil {
		res.LoadError = err.Error()
		writeOut()
		os.Exit(3)
	}
	var errs []string
	packages.Visit(pkgs, nil, func(p *packages.Package) {
		for _, e := range p.Errors {
			errs = append(errs, e.Error())
		}
	})
	if len(errs) > 0 {
		res.LoadError = strings.Join(errs, "\n")
		writeOut()
		fmt.Fprintln(os.Stderr, res.LoadError)
		os.Exit(3)
	}
	prog, spkgs := ssautil.AllPackages(pkgs, ssa.InstantiateGenerics)
	var mainPkg *ssa.Package
	for _, p := range spkgs {
		if p != nil {
			mainPkg = p
			break
		}
	}
	mainPkg.Build()
	res.LoadS = time.Since(t0).Seconds()
	fn := mainPkg.Func(*entry)
	if fn == nil {
		res.LoadError = "no such entry: " + *entry
		writeOut()
		os.Exit(3)
	}
	solver, err := smt.NewSolver(*solverKind, *timeoutMs)
	if err != nil {
		res.LoadError = err.Error()
		writeOut()
		os.Exit(3)
	}
	if *smtlog != "" {
		f, _ := os.Create(*smtlog)
		solver.Log = f
	}
	e := exec.NewEngine(prog, solver)
	e.Verbose = *verbose
	if *params != "" {
		for _, kv := range strings.Split(*params, ",") {
			i := strings.Index(kv, "=")
			if i > 0 {
				n, _ := strconv.Atoi(kv[i+1:])
				e.Params[kv[:i]] = n
				res.Params[kv[:i]] = n
			}
		}
	}
	e.Budget = *budget
	e.BFS = *bfs
	if *resume != "" {
		b, err := os.ReadFile(*resume)
		if err != nil {
			fmt.Fprintln(os.Stderr, "resume:", err)
			os.Exit(3)
		}
		if err := json.Unmarshal(b, &e.ResumeWork); err != nil {
			fmt.Fprintln(os.Stderr, "resume:", err)
			os.Exit(3)
		}
		if e.ResumeWork == nil {
			e.ResumeWork = [][]exec.PendingDecision{}
		}
	}
	if *shard != "" {
		fmt.Sscanf(*shard, "%d/%d", &e.ShardI, &e.ShardN)
	}
	e.WantWitnesses = *witnesses
	e.Init(mainPkg)
	e.Explore(fn, exec.RunConfig{MaxSteps: *maxSteps, Unwind: *unwind, MaxPaths: *maxPaths, Timeout: *tlimit})
	solver.Close()

	res.Paths = e.Paths
	res.PathOutcomes = e.PathOutcomes
	res.Instrs = e.Instrs
	res.FeasQueries = e.FeasQueries
	res.Queries = solver.Queries
	res.Sat, res.Unsat, res.Unknown = solver.NSat, solver.NUnsat, solver.NUnknown
	res.SolverS = solver.Time.Seconds()
	res.Labels = e.Labels
	res.Reach = e.Reach
	res.Cexs = e.Cexs
	res.Witnesses = e.Witnesses
	res.Unsupported = e.Unsupported
	res.BoundHits = e.BoundHits
	for f := range e.FuncsEncoded {
		res.Funcs = append(res.Funcs, f)
	}
	sort.Strings(res.Funcs)
	res.Samples = e.Samples
	res.Truncated = e.Truncated
	res.UnknownNotes = e.UnknownNotes
	res.Pending = e.Pending
	res.FreshRetries, res.FreshDecided = e.FreshRetries, e.FreshDecided
	res.SolverErrors = solver.Errors
	if len(res.SolverErrors) > 10 {
		res.SolverErrors = res.SolverErrors[:10]
	}
	res.EngineErrors = e.EngineErrors
	for a := range e.Assumptions {
		res.Assumptions = append(res.Assumptions, a)
	}
	sort.Strings(res.Assumptions)
	res.MaxDepth = e.MaxDepth
	res.Terms = smt.NumTerms()
	pprof.StopCPUProfile()
	writeOut()
}
