package main

import (
	"fmt"
	"golang.org/x/tools/go/packages"
	"golang.org/x/tools/go/ssa"
	"golang.org/x/tools/go/ssa/ssautil"
	"time"
)

func main() {
	t0 := time.Now()
	cfg := &packages.Config{Mode: packages.LoadAllSyntax, Dir: "/repo", BuildFlags: []string{"-tags=verif"}}
	pkgs, err := packages.Load(cfg, "./...")
	if err != nil {
		panic(err)
	}
	fmt.Println("loaded", len(pkgs), time.Since(t0))
	prog, _ := ssautil.AllPackages(pkgs, ssa.InstantiateGenerics)
	prog.Build()
	fmt.Println("built", len(prog.AllPackages()), time.Since(t0))
}
