#!/usr/bin/env python3
"""seedcheck.py <seed-name> [tier] [entry...]: apply a stored seeded change to /repo, run the check, undo, update meta.json."""
import sys, os, json, subprocess, re
name = sys.argv[1]; tier = sys.argv[2] if len(sys.argv) > 2 else "quick"; extra = sys.argv[3:]
d = os.path.join("/verif/seeded", name)
meta = json.load(open(os.path.join(d, "meta.json")))
pid = meta["property"]
subprocess.run("git -C /repo apply %s" % os.path.join(d, "patch.diff"), shell=True, check=True)
try:
    p = subprocess.run(["./check", pid, tier] + extra, cwd="/verif", stdout=subprocess.PIPE, stderr=subprocess.STDOUT, text=True, timeout=7200)
finally:
    subprocess.run("git -C /repo checkout -- .", shell=True, check=True)
viol = re.findall(r"VIOLATION property=\S+ replay=\S+\n\s+entry=(\S+) label=(\S+)", p.stdout)
print("check rc=%d labels=%s" % (p.returncode, sorted(set(l for _, l in viol))))
print(p.stdout[-800:])
meta.setdefault("runs", []).append({"cmd": "./check %s %s %s" % (pid, tier, " ".join(extra)), "exit": p.returncode, "labels": sorted(set(l for _, l in viol))})
if p.returncode == 1:
    meta["check_detected"] = True
    meta["check_exit"] = 1
    meta["check_labels"] = sorted(set(l for _, l in viol))
    meta["detected_by"] = "./check %s %s" % (pid, tier)
json.dump(meta, open(os.path.join(d, "meta.json"), "w"), indent=1)
