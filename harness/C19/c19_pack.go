//go:build verif

package oras

import (
	"bytes"
	"context"
	"encoding/json"
	"errors"
	"io"

	ocispec "github.com/opencontainers/image-spec/specs-go/v1"
	"oras.land/oras-go/v2/content"
	"oras.land/oras-go/v2/content/memory"
	"oras.land/oras-go/v2/errdef"
	"oras.land/oras-go/v2/internal/verifrt"
)

// recording target: a memory store that logs pushes
type c19Target struct {
	*memory.Store
	pushes []ocispec.Descriptor
}

func (t *c19Target) Push(ctx context.Context, d ocispec.Descriptor, r io.Reader) error {
	t.pushes = append(t.pushes, d)
	return t.Store.Push(ctx, d, r)
}

func c19AnnEq(a, b map[string]string) bool {
	if len(a) != len(b) {
		return false
	}
	for k, v := range a {
		w, ok := b[k]
		if !ok || len(w) != len(v) || !verifrt.StrEq(v, w) {
			return false
		}
	}
	return true
}

func c19DescEq(a, b ocispec.Descriptor) bool {
	return a.MediaType == b.MediaType && a.Digest == b.Digest && a.Size == b.Size
}

// VerifC19Pack: PackManifest (both versions) on a recording memory target.
func VerifC19Pack() {
	ctx := context.Background()
	target := &c19Target{Store: memory.New()}
	version := PackManifestVersion1_1
	if verifrt.Bool() {
		version = PackManifestVersion1_0
	}
	// artifact type: empty, a valid media type with symbolic characters, or an invalid one
	var artifactType string
	switch verifrt.Choice(3) {
	case 1:
		artifactType = "application/vnd." + verifrt.StringOver("ab.+", 1, 2)
	case 2:
		artifactType = "application/" + verifrt.StringOver("a /", 1, 2)
	}
	validAT := artifactType == "" || validateMediaType(artifactType) == nil

	blob := []byte("layer")
	layerDesc := content.NewDescriptorFromBytes("application/vnd.test.layer", blob)
	must(target.Store.Push(ctx, layerDesc, bytes.NewReader(blob)))
	cfgBlob := []byte("{\"c\":1}")
	cfgDesc := content.NewDescriptorFromBytes("application/vnd.test.config", cfgBlob)
	must(target.Store.Push(ctx, cfgDesc, bytes.NewReader(cfgBlob)))
	if verifrt.Bool() {
		// the target already holds the placeholder blob
		must(target.Store.Push(ctx, ocispec.DescriptorEmptyJSON, bytes.NewReader(ocispec.DescriptorEmptyJSON.Data)))
	}
	subjBytes := []byte(`{"schemaVersion":2,"mediaType":"application/vnd.oci.image.manifest.v1+json","config":{"mediaType":"application/vnd.oci.empty.v1+json","digest":"sha256:44136fa355b3678a1146ad16f7e8649e94fb4fc21fe77e8310c060f61caaff8a","size":2},"layers":[]}`)
	subjDesc := content.NewDescriptorFromBytes(ocispec.MediaTypeImageManifest, subjBytes)

	opts := PackManifestOptions{}
	switch verifrt.Choice(3) {
	case 1:
		opts.Layers = []ocispec.Descriptor{}
	case 2:
		opts.Layers = []ocispec.Descriptor{layerDesc}
	}
	withSubject := verifrt.Bool()
	if withSubject {
		opts.Subject = &subjDesc
	}
	cfgMode := verifrt.Choice(3)
	switch cfgMode {
	case 1:
		c := cfgDesc
		opts.ConfigDescriptor = &c
	case 2:
		opts.ConfigAnnotations = map[string]string{"ca": verifrt.StringOver("xy", 1, 1)}
	}
	createdMode := verifrt.Choice(3)
	switch createdMode {
	case 1:
		opts.ManifestAnnotations = map[string]string{ocispec.AnnotationCreated: "2000-01-01T00:00:00Z", "k": verifrt.StringOver("xy", 0, 1)}
	case 2:
		// malformed created times: arbitrary text, the empty string (present but empty is not
		// "absent"), a date without time, an RFC 3339 time without zone
		bad := []string{"not-a-time", "", "2000-01-01", "2000-01-01T00:00:00"}
		opts.ManifestAnnotations = map[string]string{ocispec.AnnotationCreated: bad[verifrt.Choice(len(bad))]}
	}
	nBefore := len(target.pushes)
	desc, err := PackManifest(ctx, target, version, artifactType, opts)
	pushed := target.pushes[nBefore:]
	manifestPushed := false
	for _, p := range pushed {
		if p.MediaType == ocispec.MediaTypeImageManifest {
			manifestPushed = true
		}
	}

	// rejections before anything is pushed
	if version == PackManifestVersion1_0 && withSubject {
		verifrt.Assert(errors.Is(err, errdef.ErrUnsupported) && len(pushed) == 0, "C19.reject-early.subject-v1_0")
		verifrt.Reach("C19.pack.rejected")
		return
	}
	if version == PackManifestVersion1_1 && artifactType == "" && cfgMode != 1 {
		verifrt.Assert(errors.Is(err, ErrMissingArtifactType) && len(pushed) == 0, "C19.reject-early.missing-artifact-type")
		verifrt.Reach("C19.pack.rejected")
		return
	}
	usesAT := version == PackManifestVersion1_1 || cfgMode != 1
	if usesAT && !validAT {
		verifrt.Assert(errors.Is(err, errdef.ErrInvalidMediaType) && len(pushed) == 0, "C19.reject-early.invalid-media-type")
		verifrt.Reach("C19.pack.rejected")
		return
	}
	if createdMode == 2 {
		verifrt.Assert(errors.Is(err, ErrInvalidDateTimeFormat) && !manifestPushed, "C19.reject.malformed-created-no-manifest")
		verifrt.Reach("C19.pack.rejected")
		return
	}
	verifrt.Assert(err == nil, "C19.pack.succeeds")
	if err != nil {
		return
	}
	// the descriptor describes the stored bytes
	stored, ferr := content.FetchAll(ctx, target, desc)
	verifrt.Assert(ferr == nil, "C19.consistent.stored")
	if ferr != nil {
		return
	}
	verifrt.Assert(desc.Size == int64(len(stored)), "C19.consistent.size")
	var m ocispec.Manifest
	verifrt.Assert(json.Unmarshal(stored, &m) == nil, "C19.consistent.parses")
	verifrt.Assert(m.MediaType == desc.MediaType && desc.MediaType == ocispec.MediaTypeImageManifest, "C19.consistent.media-type")
	// requested fields
	if cfgMode == 1 {
		verifrt.Assert(c19DescEq(m.Config, cfgDesc), "C19.consistent.config")
	} else if version == PackManifestVersion1_1 {
		verifrt.Assert(c19DescEq(m.Config, ocispec.DescriptorEmptyJSON), "C19.consistent.empty-config")
		verifrt.Assert(c19AnnEq(m.Config.Annotations, opts.ConfigAnnotations), "C19.consistent.config-annotations")
	} else {
		wantMT := artifactType
		if wantMT == "" {
			wantMT = MediaTypeUnknownConfig
		}
		verifrt.Assert(len(m.Config.MediaType) == len(wantMT) && verifrt.StrEq(m.Config.MediaType, wantMT) && m.Config.Size == 2, "C19.consistent.custom-empty-config")
	}
	if len(opts.Layers) == 0 {
		if version == PackManifestVersion1_1 {
			verifrt.Assert(len(m.Layers) == 1 && c19DescEq(m.Layers[0], ocispec.DescriptorEmptyJSON), "C19.consistent.empty-layer-placeholder")
		} else {
			verifrt.Assert(m.Layers != nil && len(m.Layers) == 0, "C19.consistent.empty-layers-array")
		}
	} else {
		verifrt.Assert(len(m.Layers) == 1 && c19DescEq(m.Layers[0], layerDesc), "C19.consistent.layers")
	}
	if withSubject {
		verifrt.Assert(m.Subject != nil && c19DescEq(*m.Subject, subjDesc), "C19.consistent.subject")
	} else {
		verifrt.Assert(m.Subject == nil, "C19.consistent.no-subject")
	}
	if version == PackManifestVersion1_1 {
		verifrt.Assert(len(m.ArtifactType) == len(artifactType) && verifrt.StrEq(m.ArtifactType, artifactType), "C19.consistent.artifact-type")
	}
	_, hasCreated := m.Annotations[ocispec.AnnotationCreated]
	verifrt.Assert(hasCreated, "C19.consistent.created-filled-in")
	if createdMode == 1 {
		verifrt.Assert(c19AnnEq(m.Annotations, opts.ManifestAnnotations), "C19.consistent.annotations")
	}
	// everything the manifest names is in the target: the result can be copied
	dst := memory.New()
	verifrt.Assert(CopyGraph(ctx, target, dst, desc, CopyGraphOptions{}) == nil || withSubject, "C19.consistent.copyable")
	// deterministic with a fixed created annotation
	if createdMode == 1 {
		desc2, err2 := PackManifest(ctx, target, version, artifactType, opts)
		verifrt.Assert(err2 == nil && c19DescEq(desc, desc2), "C19.deterministic")
	}
	verifrt.Reach("C19.pack.ok")
}
