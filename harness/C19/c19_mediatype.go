//go:build verif

package oras

import (
	"errors"

	"oras.land/oras-go/v2/errdef"
	"oras.land/oras-go/v2/internal/verifrt"
)

// RFC 6838 section 4.2:  restricted-name = restricted-name-first *126restricted-name-chars
func rfc6838First(c byte) bool {
	return verifrt.Or(verifrt.Or(verifrt.And(c >= 'a', c <= 'z'), verifrt.And(c >= 'A', c <= 'Z')), verifrt.And(c >= '0', c <= '9'))
}

func rfc6838Char(c byte) bool {
	sym := verifrt.Or(verifrt.Or(verifrt.Or(c == '!', c == '#'), verifrt.Or(c == '$', c == '&')),
		verifrt.Or(verifrt.Or(c == '-', c == '^'), verifrt.Or(c == '_', verifrt.Or(c == '.', c == '+'))))
	return verifrt.Or(rfc6838First(c), sym)
}

func rfc6838Name(s string) bool {
	if len(s) < 1 || len(s) > 127 {
		return false
	}
	ok := rfc6838First(s[0])
	for i := 1; i < len(s); i++ {
		ok = verifrt.And(ok, rfc6838Char(s[i]))
	}
	return ok
}

// specMediaType: type-name "/" subtype-name, exactly one '/'.
func specMediaType(s string) bool {
	ok := false
	for i := 0; i < len(s); i++ {
		// candidate split at i: s[i] == '/' and both sides are restricted names (which exclude '/')
		ok = verifrt.Or(ok, verifrt.And(s[i] == '/', verifrt.And(rfc6838Name(s[:i]), rfc6838Name(s[i+1:]))))
	}
	return ok
}

func judgeMediaType(s string) {
	err := validateMediaType(s)
	spec := specMediaType(s)
	verifrt.Assert((err == nil) == spec, "C19.mediatype.rfc6838")
	if err != nil {
		verifrt.Assert(errors.Is(err, errdef.ErrInvalidMediaType), "C19.mediatype.error-class")
		verifrt.Reach("C19.mediatype.rejected")
	} else {
		verifrt.Reach("C19.mediatype.accepted")
	}
}

// VerifC19MediaType: every string up to S bytes over a representative alphabet.
func VerifC19MediaType() {
	S := verifrt.Param("S", 5)
	judgeMediaType(verifrt.StringOver("aZ0!#$&^_.+-/ @*%\n", 0, S))
}

// VerifC19MediaTypeLong: the 127-character limit of each name (126 following characters).
func VerifC19MediaTypeLong() {
	n1 := 125 + verifrt.Choice(4) // 125..128
	n2 := 1
	if verifrt.Bool() {
		n1, n2 = n2, n1
	}
	a := verifrt.StringOver("aZ0!+-/", n1, n1)
	b := verifrt.StringOver("aZ0!+-/", n2, n2)
	judgeMediaType(a + "/" + b)
}
