//go:build verif

package oras

func must(err error) {
	if err != nil {
		panic(err)
	}
}
