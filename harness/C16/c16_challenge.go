//go:build verif

package auth

import (
	"oras.land/oras-go/v2/internal/verifrt"
)

const tcharAlphabet = "aZ0!#$%&'*+-.^_`|~"

// VerifC16Challenge: parseChallenge(print(c)) = c for well-formed RFC 7235 challenges:
// scheme token (any letter case), 1*SP, #auth-param with optional BWS around '=' and OWS around
// ',', values as token or quoted-string (no backslash escapes: the statement does not speak
// about them).
func VerifC16Challenge() {
	schemes := []string{"Bearer", "bearer", "BEARER", "Basic", "basic", "Negotiate"}
	si := verifrt.Choice(len(schemes))
	header := schemes[si]
	wantScheme := SchemeUnknown
	if si <= 2 {
		wantScheme = SchemeBearer
	} else if si <= 4 {
		wantScheme = SchemeBasic
	}
	keys := []string{"realm", "service", "scope", "x"}
	n := verifrt.Choice(verifrt.Param("P", 2) + 1)
	want := map[string]string{}
	sp := func() string {
		switch verifrt.Choice(3) {
		case 1:
			return " "
		case 2:
			return "\t"
		}
		return ""
	}
	for i := 0; i < n; i++ {
		if i == 0 {
			header += " "
			if verifrt.Bool() {
				header += " "
			}
		} else {
			header += sp() + "," + sp()
		}
		k := keys[verifrt.Choice(len(keys))]
		var v string
		if verifrt.Bool() {
			v = verifrt.StringOver(tcharAlphabet, 1, 2)
			header += k + sp() + "=" + sp() + v
		} else {
			v = verifrt.StringOver("aZ0 ,=:/\t*", 0, 2)
			header += k + sp() + "=" + sp() + "\"" + v + "\""
		}
		want[k] = v
	}
	scheme, params := parseChallenge(header)
	verifrt.Assert(scheme == wantScheme, "C16.challenge.scheme")
	if wantScheme != SchemeBearer {
		verifrt.Assert(len(params) == 0, "C16.challenge.no-params-for-non-bearer")
		verifrt.Reach("C16.challenge.nonbearer")
		return
	}
	verifrt.Assert(len(params) == len(want), "C16.challenge.param-count")
	for k, v := range want {
		got, ok := params[k]
		verifrt.Assert(ok, "C16.challenge.param-present")
		if ok {
			verifrt.Assert(len(got) == len(v), "C16.challenge.param-len")
			if len(got) == len(v) {
				verifrt.Assert(verifrt.StrEq(got, v), "C16.challenge.param-value")
			}
		}
	}
	verifrt.Reach("C16.challenge.bearer")
}
