//go:build verif

package auth

import (
	"oras.land/oras-go/v2/internal/verifrt"
)

// A small universe of well-formed scopes "r:<n>:<a>[,<a>]" with n in {a,b} and actions in
// {p,x,*}; names and actions are symbolic bytes, the list has 1..N scopes of 1..2 actions.

type scopeSem struct {
	// has[n][k]: action k (0=p, 1=x, 2=*) granted on name n (0=a, 1=b)
	has [2][3]bool
}

func semAdd(s *scopeSem, n byte, a byte) {
	for ni := 0; ni < 2; ni++ {
		isN := n == "ab"[ni]
		for k := 0; k < 3; k++ {
			s.has[ni][k] = verifrt.Or(s.has[ni][k], verifrt.And(isN, a == "px*"[k]))
		}
	}
}

// semNorm applies wildcard absorption.
func semNorm(s scopeSem) scopeSem {
	var r scopeSem
	for ni := 0; ni < 2; ni++ {
		star := s.has[ni][2]
		r.has[ni][0] = verifrt.And(!star, s.has[ni][0])
		r.has[ni][1] = verifrt.And(!star, s.has[ni][1])
		r.has[ni][2] = star
	}
	return r
}

func semEq(a, b scopeSem) bool {
	ok := true
	for ni := 0; ni < 2; ni++ {
		for k := 0; k < 3; k++ {
			ok = verifrt.And(ok, a.has[ni][k] == b.has[ni][k])
		}
	}
	return ok
}

// semOfStrings parses scopes of the generated shape ("r:n:a" or "r:n:a,a" ...).
func semOfStrings(scopes []string) (scopeSem, bool) {
	var s scopeSem
	shape := true
	for _, sc := range scopes {
		if len(sc) < 5 || len(sc)%2 == 0 {
			return s, false
		}
		shape = verifrt.And(shape, verifrt.And(verifrt.StrEq(sc[:2], "r:"), sc[3] == ':'))
		for i := 4; i < len(sc); i += 2 {
			semAdd(&s, sc[2], sc[i])
			if i+1 < len(sc) {
				shape = verifrt.And(shape, sc[i+1] == ',')
			}
		}
	}
	return s, shape
}

func genScopes(n int) []string {
	var out []string
	for i := 0; i < n; i++ {
		sc := "r:" + verifrt.StringOver("ab", 1, 1) + ":" + verifrt.StringOver("px*", 1, 1)
		if verifrt.Bool() {
			sc += "," + verifrt.StringOver("px*", 1, 1)
		}
		out = append(out, sc)
	}
	return out
}

func strsEq(a, b []string) bool {
	if len(a) != len(b) {
		return false
	}
	ok := true
	for i := range a {
		if len(a[i]) != len(b[i]) {
			return false
		}
		ok = verifrt.And(ok, verifrt.StrEq(a[i], b[i]))
	}
	return ok
}

// VerifC16Scopes: CleanScopes is a canonical form on well-formed scopes.
func VerifC16Scopes() {
	// Go map iteration order is unspecified: with maporder=1 every order is explored
	verifrt.MapOrder(verifrt.Param("maporder", 0))
	N := verifrt.Param("N", 2)
	n := 1 + verifrt.Choice(N)
	in := genScopes(n)
	inSem, _ := semOfStrings(in)
	want := semNorm(inSem)

	cp := append([]string(nil), in...)
	out := CleanScopes(cp)
	outSem, shape := semOfStrings(out)
	verifrt.Assert(shape, "C16.scopes.shape")
	verifrt.Assert(semEq(outSem, want), "C16.scopes.same-set")
	// duplicate-free and sorted: strictly ascending scope strings with distinct names
	for i := 1; i < len(out); i++ {
		verifrt.Assert(out[i-1] < out[i], "C16.scopes.sorted")
		verifrt.Assert(out[i-1][2] != out[i][2], "C16.scopes.one-scope-per-resource")
	}
	for _, sc := range out {
		for i := 6; i < len(sc); i += 2 {
			verifrt.Assert(sc[i-2] < sc[i], "C16.scopes.actions-sorted-unique")
		}
		if len(sc) > 5 {
			for i := 4; i < len(sc); i += 2 {
				verifrt.Assert(sc[i] != '*', "C16.scopes.wildcard-absorbs")
			}
		}
	}
	// idempotent
	again := CleanScopes(append([]string(nil), out...))
	verifrt.Assert(strsEq(again, out), "C16.scopes.idempotent")
	// order-insensitive: reversing the input gives the same key
	rev := make([]string, len(in))
	for i := range in {
		rev[len(in)-1-i] = in[i]
	}
	out2 := CleanScopes(rev)
	verifrt.Assert(strsEq(out2, out), "C16.scopes.permutation-invariant")
	verifrt.Reach("C16.scopes.end")
}
