//go:build verif

package auth

import (
	"bytes"
	"context"
	"fmt"
	"io"
	"net/http"
	"strings"

	"oras.land/oras-go/v2/internal/verifrt"
)

// twoRegistries plays two registries (a.io, b.io) and their token services. Each registry has
// its own credentials; the transport scans every outgoing request for secrets that belong to
// the other registry.
type twoRegistries struct {
	mode       map[string]int      // host -> 0 open, 1 Basic, 2 Bearer(own realm), 3 Bearer(shared realm host)
	secrets    map[string][]string // host -> secrets that must never reach another host
	issued     map[string]string   // access token -> registry host it was issued for
	nTok       int
	sends      map[string]int // requests per host
	tokenHits  map[string]int // token fetches per registry
	leak       string
	misuse     string
	log        []string
	advertised map[string]string // realm host -> registry that advertised it last
	service    map[string]string // registry -> service name it puts in its challenge (its own name or the other registry's)
}

// c16Lab: a host as it appears inside user names and secrets (no colon).
func c16Lab(h string) string {
	if !strings.Contains(h, ":") {
		return h
	}
	// no label may be a substring of another (the transport scans for secrets by substring)
	return strings.ReplaceAll(strings.ReplaceAll(h, ":", "_"), ".", "_")
}

func (p *twoRegistries) scan(req *http.Request, dstHost string, allowed []string) {
	var hay []string
	for _, vs := range req.Header {
		hay = append(hay, vs...)
	}
	hay = append(hay, req.URL.RawQuery)
	if req.Body != nil && req.Body != http.NoBody {
		b, _ := io.ReadAll(req.Body)
		hay = append(hay, string(b))
		req.Body = io.NopCloser(bytes.NewReader(b))
	}
	// basic auth header carries base64(user:pass): decode for scanning
	if u, pw, ok := req.BasicAuth(); ok {
		hay = append(hay, u, pw)
	}
	for host, secs := range p.secrets {
		ok := false
		for _, a := range allowed {
			if a == host {
				ok = true
			}
		}
		if ok {
			continue
		}
		for _, s := range secs {
			for _, h := range hay {
				if strings.Contains(h, s) {
					p.leak = fmt.Sprintf("secret of %s sent to %s", host, dstHost)
				}
			}
		}
	}
	for tok, host := range p.issued {
		ok := false
		for _, a := range allowed {
			if a == host {
				ok = true
			}
		}
		if ok {
			continue
		}
		for _, h := range hay {
			if strings.Contains(h, tok) {
				p.leak = fmt.Sprintf("token of %s sent to %s", host, dstHost)
			}
		}
	}
}

func (p *twoRegistries) resp(req *http.Request, code int, body string) *http.Response {
	return &http.Response{StatusCode: code, Header: http.Header{}, Request: req, Body: io.NopCloser(strings.NewReader(body)), ContentLength: int64(len(body))}
}

func (p *twoRegistries) RoundTrip(req *http.Request) (*http.Response, error) {
	host := req.URL.Host
	p.log = append(p.log, req.Method+" "+host+req.URL.Path)
	_, isRegistry := p.mode[host]
	switch {
	case isRegistry:
		p.scan(req, host, []string{host})
		p.sends[host]++
		auth := req.Header.Get("Authorization")
		if strings.HasPrefix(auth, "Bearer ") && p.issued[auth[7:]] == "" && !strings.HasPrefix(auth[7:], "access-") {
			// a Bearer header must carry a token some token service issued, never a cached Basic secret
			p.misuse = "Bearer header with a token that no token service issued: " + auth
		}
		switch p.mode[host] {
		case 0:
			return p.resp(req, http.StatusOK, "ok"), nil
		case 1:
			if u, pw, ok := req.BasicAuth(); ok && u == "user-"+c16Lab(host) && pw == "pass-"+c16Lab(host) {
				return p.resp(req, http.StatusOK, "ok"), nil
			}
			r := p.resp(req, http.StatusUnauthorized, "")
			r.Header.Set("Www-Authenticate", `Basic realm="`+host+`"`)
			return r, nil
		default:
			if strings.HasPrefix(auth, "Bearer ") && (p.issued[auth[7:]] == host || auth[7:] == "access-"+c16Lab(host)) {
				return p.resp(req, http.StatusOK, "ok"), nil
			}
			realmHost := "auth." + host
			if p.mode[host] == 3 {
				realmHost = "auth.shared.io"
			}
			p.advertised[realmHost] = host
			r := p.resp(req, http.StatusUnauthorized, "")
			r.Header.Set("Www-Authenticate", `Bearer realm="https://`+realmHost+`/token",service="`+p.service[host]+`",scope="repository:x:pull"`)
			return r, nil
		}
	case strings.HasPrefix(host, "auth."):
		// the token service a registry advertised may see that registry's password / refresh token
		svc := req.URL.Query().Get("service")
		if req.Method == http.MethodPost {
			b, _ := io.ReadAll(req.Body)
			req.Body = io.NopCloser(bytes.NewReader(b))
			for _, kv := range strings.Split(string(b), "&") {
				if strings.HasPrefix(kv, "service=") {
					svc = kv[len("service="):]
				}
			}
		}
		// a token service may only see the secrets of the registry that advertised it
		owner := p.advertised[host]
		_ = svc
		p.scan(req, host, []string{owner})
		p.tokenHits[owner]++
		p.nTok++
		tok := fmt.Sprintf("tok%d-%s", p.nTok, owner)
		p.issued[tok] = owner
		if req.Method == http.MethodPost {
			return p.resp(req, http.StatusOK, `{"access_token":"`+tok+`"}`), nil
		}
		return p.resp(req, http.StatusOK, `{"token":"`+tok+`"}`), nil
	}
	return p.resp(req, http.StatusNotFound, ""), nil
}

// VerifC16Hosts: a history of requests to two registries with distinct credentials through one
// auth.Client: no secret or token of one registry ever reaches the other registry (or a token
// service the other registry advertised); with valid credentials the caller gets the non-401
// answer within three sends and one token fetch per request.
func VerifC16Hosts() {
	k := verifrt.Param("k", 2)
	// the second registry is another name, or the same name on another port
	hostB := []string{"b.io", "a.io:8443"}[verifrt.Choice(2)]
	peer := &twoRegistries{mode: map[string]int{}, secrets: map[string][]string{}, issued: map[string]string{},
		sends: map[string]int{}, tokenHits: map[string]int{}, advertised: map[string]string{}, service: map[string]string{}}
	for _, h := range []string{"a.io", hostB} {
		peer.mode[h] = verifrt.Choice(4)
		peer.secrets[h] = []string{"pass-" + c16Lab(h), "refresh-" + c16Lab(h), "access-" + c16Lab(h)}
		peer.service[h] = h
	}
	// a registry may name the other registry as the token "service" in its challenge
	if verifrt.Bool() {
		peer.service["a.io"] = hostB
	}
	credKind := verifrt.Choice(3) // 0 password, 1 refresh token, 2 access token
	noCredForA := verifrt.Bool()  // registry a.io has no credential configured
	client := &Client{
		Client: &http.Client{Transport: peer},
		Credential: func(ctx context.Context, hostport string) (Credential, error) {
			switch hostport {
			case "a.io", hostB:
				if hostport == "a.io" && noCredForA {
					return EmptyCredential, nil
				}
				switch credKind {
				case 1:
					return Credential{RefreshToken: "refresh-" + c16Lab(hostport)}, nil
				case 2:
					return Credential{AccessToken: "access-" + c16Lab(hostport)}, nil
				}
				return Credential{Username: "user-" + c16Lab(hostport), Password: "pass-" + c16Lab(hostport)}, nil
			}
			return EmptyCredential, nil
		},
	}
	switch verifrt.Choice(3) {
	case 1:
		client.Cache = NewCache()
	case 2:
		client.Cache = NewSingleContextCache()
	}
	client.ForceAttemptOAuth2 = verifrt.Bool()
	for step := 0; step < k; step++ {
		host := []string{"a.io", hostB}[verifrt.Choice(2)]
		if step > 0 && verifrt.Param("switch", 1) != 0 && verifrt.Bool() {
			peer.mode[host] = verifrt.Choice(4) // the registry changes its scheme mid-history
		}
		if credKind != 0 && peer.mode[host] == 1 {
			continue // basic auth needs a username and password
		}
		valid := !(host == "a.io" && noCredForA)
		before := peer.sends[host]
		beforeTok := peer.tokenHits[host]
		req, err := http.NewRequestWithContext(context.Background(), http.MethodGet, "https://"+host+"/v2/x/tags/list", nil)
		if err != nil {
			panic(err)
		}
		verifrt.Event("GET " + host)
		resp, err := client.Do(req)
		verifrt.Assert(peer.leak == "", "C16.no-leak")
		verifrt.Assert(peer.misuse == "", "C16.cache.token-reused-only-for-its-scheme")
		if valid {
			verifrt.Assert(err == nil, "C16.hosts.request-succeeds")
			if err == nil {
				verifrt.Assert(resp.StatusCode == http.StatusOK, "C16.bounded.non-401-answer")
			}
		}
		if err == nil {
			resp.Body.Close()
		}
		verifrt.Assert(peer.sends[host]-before <= 3, "C16.bounded.at-most-three-sends")
		verifrt.Assert(peer.tokenHits[host]-beforeTok <= 1, "C16.bounded.at-most-one-token-fetch")
	}
	verifrt.Reach("C16.hosts.end")
}
