//go:build verif

package auth

import (
	"context"
	"errors"
	"fmt"

	"oras.land/oras-go/v2/errdef"
	"oras.land/oras-go/v2/internal/verifrt"
)

var errFetch = errors.New("token fetch failed")

// VerifC16CacheKey: a token stored in a cache is handed out again only for the same registry
// host, the same scheme and the same key (canonical scope set); a scheme change for a host
// invalidates what was cached for the previous scheme; a failed fetch caches nothing.
// History of k Set/GetToken/GetScheme operations on the shared cache and on the
// single-context cache against a reference map.
func VerifC16CacheKey() {
	k := verifrt.Param("k", 3)
	ctx := context.Background()
	var cache Cache
	single := verifrt.Bool()
	if single {
		cache = NewSingleContextCache()
	} else {
		cache = NewCache()
	}
	hosts := []string{"a.io", "b.io"}
	schemes := []Scheme{SchemeBasic, SchemeBearer}
	keys := []string{"", "repository:x:pull"}
	type ent struct {
		scheme Scheme
		tokens map[string]string
	}
	model := map[string]*ent{}
	ntok := 0
	for step := 0; step < k; step++ {
		h := hosts[verifrt.Choice(len(hosts))]
		sc := schemes[verifrt.Choice(len(schemes))]
		key := keys[verifrt.Choice(len(keys))]
		if sc == SchemeBasic {
			key = "" // the client caches basic credentials under the empty key
		}
		switch verifrt.Choice(3) {
		case 0: // Set
			ntok++
			tok := fmt.Sprintf("secret-%s-%d", h, ntok)
			fail := verifrt.Bool()
			verifrt.Event(fmt.Sprintf("Set(%s,%s,%q) fail=%v", h, sc, key, fail))
			got, err := cache.Set(ctx, h, sc, key, func(context.Context) (string, error) {
				if fail {
					return "", errFetch
				}
				return tok, nil
			})
			if fail {
				verifrt.Assert(err != nil, "C16.cache.fetch-error-surfaces")
				continue
			}
			verifrt.Assert(err == nil && got == tok, "C16.cache.set-returns-fetched")
			e := model[h]
			if e == nil || e.scheme != sc {
				e = &ent{scheme: sc, tokens: map[string]string{}}
				model[h] = e
			}
			e.tokens[key] = tok
		case 1: // GetToken
			got, err := cache.GetToken(ctx, h, sc, key)
			verifrt.Event(fmt.Sprintf("GetToken(%s,%s,%q)", h, sc, key))
			e := model[h]
			want, ok := "", false
			if e != nil && e.scheme == sc {
				want, ok = e.tokens[key], true
				if _, has := e.tokens[key]; !has {
					ok = false
				}
			}
			if err == nil {
				if single {
					// the single-context cache is documented to ignore scopes: the token must still
					// have been stored for this very host and scheme
					any := false
					if e != nil && e.scheme == sc {
						for _, t := range e.tokens {
							if t == got {
								any = true
							}
						}
					}
					verifrt.Assert(any, "C16.cache.single-context-token-for-same-host-scheme")
				} else {
					// a returned token is the one stored for exactly this host, scheme and key
					verifrt.Assert(ok && got == want, "C16.cache.token-only-for-same-host-scheme-key")
				}
				verifrt.Reach("C16.cache.hit")
			} else {
				verifrt.Assert(errors.Is(err, errdef.ErrNotFound), "C16.cache.miss-is-notfound")
				if !single {
					verifrt.Assert(!ok, "C16.cache.hit-when-stored")
				}
				verifrt.Reach("C16.cache.miss")
			}
		case 2: // GetScheme
			got, err := cache.GetScheme(ctx, h)
			if e := model[h]; e != nil && err == nil {
				verifrt.Assert(got == e.scheme, "C16.cache.scheme-is-latest")
			}
			if model[h] == nil {
				verifrt.Assert(err != nil, "C16.cache.scheme-unknown-host")
			}
		}
	}
}
