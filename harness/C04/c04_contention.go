//go:build verif

package oras

import (
	"context"
	"encoding/json"

	"github.com/opencontainers/image-spec/specs-go"
	ocispec "github.com/opencontainers/image-spec/specs-go/v1"
	"oras.land/oras-go/v2/content"
	"oras.land/oras-go/v2/content/memory"
	"oras.land/oras-go/v2/internal/verifrt"
)

// fixedSiblings builds: index(4) -> manifest(2){config 0}, manifest(3){config 1 or 0}.
func fixedSiblings(shared bool) []vnode {
	blob := func(b string) vnode {
		n := vnode{kind: kindBlob, bytes: []byte(b), subject: -1}
		n.desc = content.NewDescriptorFromBytes("application/vnd.oci.image.layer.v1.tar", n.bytes)
		return n
	}
	nodes := []vnode{blob("b0"), blob("b1")}
	mk := func(i, cfg int) vnode {
		m := ocispec.Manifest{Versioned: specs.Versioned{SchemaVersion: 2}, MediaType: ocispec.MediaTypeImageManifest,
			Config: nodes[cfg].desc, Layers: []ocispec.Descriptor{}, Annotations: map[string]string{"n": string(rune('0' + i))}}
		b, _ := json.Marshal(m)
		return vnode{kind: kindManifest, bytes: b, desc: content.NewDescriptorFromBytes(m.MediaType, b), links: []int{cfg}, succ: []int{cfg}, subject: -1}
	}
	nodes = append(nodes, mk(2, 0))
	if shared {
		nodes = append(nodes, mk(3, 0))
	} else {
		nodes = append(nodes, mk(3, 1))
	}
	idx := ocispec.Index{Versioned: specs.Versioned{SchemaVersion: 2}, MediaType: ocispec.MediaTypeImageIndex,
		Manifests: []ocispec.Descriptor{nodes[2].desc, nodes[3].desc}}
	b, _ := json.Marshal(idx)
	nodes = append(nodes, vnode{kind: kindIndex, bytes: b, desc: content.NewDescriptorFromBytes(idx.MediaType, b), links: []int{2, 3}, succ: []int{2, 3}, subject: -1})
	return nodes
}

// VerifC04Contention: two sibling sub-graphs compete for the limiter; every cooperative schedule
// (fork at every spawn, operations yield in the middle) keeps source and destination operations
// in flight within Concurrency, and nothing is transferred twice.
func VerifC04Contention() {
	verifrt.Sched(verifrt.Param("sched", verifrt.SchedBoth))
	nodes := fixedSiblings(verifrt.Bool())
	src := newRecStore(newSource(nodes), nodes)
	inner := memory.New()
	dst := newRecStore(inner, nodes)
	src.yield, dst.yield = true, true
	conc := 1 + verifrt.Choice(verifrt.Param("maxconc", 2))
	err := CopyGraph(context.Background(), src, dst, nodes[4].desc, CopyGraphOptions{Concurrency: conc})
	verifrt.Assert(err == nil, "C04.contention.succeeds")
	verifrt.Assert(src.maxFlight <= conc, "C04.inflight.source")
	verifrt.Assert(dst.maxFlight <= conc, "C04.inflight.destination")
	for i := range nodes {
		if nodeIndex(nodes, nodes[i].desc) != i {
			continue
		}
		verifrt.Assert(src.fetches[i] <= 1, "C04.once.fetch")
		verifrt.Assert(dst.pushes[i] <= 1, "C04.once.push")
	}
	if err == nil {
		assertCopied(inner, nodes, 4, "C04.contention.copied")
	}
	verifrt.Reach("C04.contention.end")
}
