//go:build verif

package oras

import (
	"context"
	"errors"

	ocispec "github.com/opencontainers/image-spec/specs-go/v1"
	"oras.land/oras-go/v2/content/memory"
	"oras.land/oras-go/v2/internal/verifrt"
)

var errCallback = errors.New("callback failure")

// VerifC04Accounting: in-flight bounds, single transfer, callback protocol.
// Storage operations yield in the middle, so cooperative schedules overlap them.
func VerifC04Accounting() {
	K := verifrt.Param("K", 3)
	verifrt.Sched(verifrt.Param("sched", verifrt.SchedBoth))
	nodes := symDAG(K)
	src := newRecStore(newSource(nodes), nodes)
	inner := memory.New()
	pre := prepopulate(inner, nodes)
	dst := newRecStore(inner, nodes)
	src.yield, dst.yield = true, true
	root := verifrt.Choice(K)
	conc := 1 + verifrt.Choice(verifrt.Param("maxconc", 2))

	// callback trace per node (by first node with that digest)
	preN := make([]int, K)
	postN := make([]int, K)
	skipN := make([]int, K)
	terminal := make([]bool, K) // PostCopy or OnCopySkipped seen
	failAt := -1
	if verifrt.Param("cbfail", 0) != 0 && verifrt.Bool() {
		failAt = verifrt.Choice(K)
	}
	opts := CopyGraphOptions{Concurrency: conc}
	opts.PreCopy = func(ctx context.Context, desc ocispec.Descriptor) error {
		i := nodeIndex(nodes, desc)
		verifrt.Assert(postN[i] == 0, "C04.callbacks.pre-before-post")
		preN[i]++
		return nil
	}
	opts.PostCopy = func(ctx context.Context, desc ocispec.Descriptor) error {
		i := nodeIndex(nodes, desc)
		postN[i]++
		verifrt.Assert(preN[i] == 1, "C04.callbacks.post-after-one-pre")
		// a node's PostCopy comes after the terminal notification of each successor
		for _, j := range nodes[i].succ {
			verifrt.Assert(terminal[nodeIndex(nodes, nodes[j].desc)], "C04.callbacks.post-after-successors")
		}
		terminal[i] = true
		if i == failAt {
			return errCallback
		}
		return nil
	}
	opts.OnCopySkipped = func(ctx context.Context, desc ocispec.Descriptor) error {
		i := nodeIndex(nodes, desc)
		skipN[i]++
		terminal[i] = true
		return nil
	}
	err := CopyGraph(context.Background(), src, dst, nodes[root].desc, opts)

	verifrt.Assert(src.maxFlight <= conc, "C04.inflight.source")
	verifrt.Assert(dst.maxFlight <= conc, "C04.inflight.destination")
	for i := range nodes {
		if nodeIndex(nodes, nodes[i].desc) != i {
			continue // same content as an earlier node: counted there
		}
		verifrt.Assert(src.fetches[i] <= 1, "C04.once.fetch")
		verifrt.Assert(dst.pushes[i] <= 1, "C04.once.push")
		verifrt.Assert(skipN[i] <= 1, "C04.callbacks.skipped-at-most-once")
		verifrt.Assert(preN[i] <= 1 && postN[i] <= 1, "C04.callbacks.at-most-once")
		if dst.pushes[i] == 1 {
			verifrt.Assert(preN[i] == 1, "C04.callbacks.pre-for-transfer")
			if err == nil {
				verifrt.Assert(postN[i] == 1, "C04.callbacks.post-for-transfer")
			}
		}
	}
	_ = pre
	if failAt >= 0 && postN[failAt] > 0 {
		verifrt.Assert(errors.Is(err, errCallback), "C04.callbacks.error-aborts")
		verifrt.Reach("C04.callback-failed")
	} else {
		verifrt.Assert(err == nil, "C04.succeeds")
		verifrt.Reach("C04.ok")
	}
}
