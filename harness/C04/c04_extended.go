//go:build verif

package oras

import (
	"context"
	"encoding/json"

	"github.com/opencontainers/image-spec/specs-go"
	ocispec "github.com/opencontainers/image-spec/specs-go/v1"
	"oras.land/oras-go/v2/content"
	"oras.land/oras-go/v2/content/memory"
	"oras.land/oras-go/v2/internal/verifrt"
)

// graphRec adds the source's predecessor relation to an instrumented store.
type graphRec struct {
	*recStore
	g content.PredecessorFinder
}

func (s graphRec) Predecessors(ctx context.Context, node ocispec.Descriptor) ([]ocispec.Descriptor, error) {
	if s.yield {
		verifrt.Yield()
	}
	return s.g.Predecessors(ctx, node)
}

// fixedReferrers builds: blob(0); manifest(1){config 0}; referrers (2), (3) with subject 1 and
// config 0: two roots that share the sub-graph {1, 0}.
func fixedReferrers() []vnode {
	n0 := vnode{kind: kindBlob, bytes: []byte("{}"), subject: -1}
	n0.desc = content.NewDescriptorFromBytes("application/vnd.oci.empty.v1+json", n0.bytes)
	nodes := []vnode{n0}
	mk := func(i int, subject int) vnode {
		m := ocispec.Manifest{Versioned: specs.Versioned{SchemaVersion: 2}, MediaType: ocispec.MediaTypeImageManifest,
			Config: nodes[0].desc, Layers: []ocispec.Descriptor{}, Annotations: map[string]string{"n": string(rune('0' + i))}}
		links := []int{0}
		if subject >= 0 {
			d := nodes[subject].desc
			m.Subject = &d
			links = []int{subject, 0}
		}
		b, _ := json.Marshal(m)
		return vnode{kind: kindManifest, bytes: b, desc: content.NewDescriptorFromBytes(m.MediaType, b), links: links, succ: links, subject: subject}
	}
	nodes = append(nodes, mk(1, -1))
	nodes = append(nodes, mk(2, 1))
	nodes = append(nodes, mk(3, 1))
	return nodes
}

// VerifC04Extended: ExtendedCopyGraph from a manifest with two referrers: the two roots share
// the manifest's sub-graph. Under every cooperative schedule (fork at every spawn, every storage
// operation yields in the middle) nothing is fetched or pushed twice, every transferred node gets
// exactly one PreCopy followed by one PostCopy, and operations in flight stay within Concurrency.
func VerifC04Extended() {
	verifrt.Sched(verifrt.Param("sched", verifrt.SchedBoth))
	nodes := fixedReferrers()
	mem := newSource(nodes)
	rec := newRecStore(mem, nodes)
	src := graphRec{rec, mem}
	inner := memory.New()
	dst := newRecStore(inner, nodes)
	rec.yield, dst.yield = true, true
	conc := 1 + verifrt.Choice(verifrt.Param("maxconc", 2))
	pre := make([]int, len(nodes))
	post := make([]int, len(nodes))
	skipped := make([]int, len(nodes))
	opts := ExtendedCopyGraphOptions{}
	opts.Concurrency = conc
	opts.PreCopy = func(ctx context.Context, d ocispec.Descriptor) error {
		if i := nodeIndex(nodes, d); i >= 0 {
			pre[i]++
			verifrt.Assert(post[i] == 0, "C04.callbacks.precopy-before-postcopy")
		}
		return nil
	}
	opts.PostCopy = func(ctx context.Context, d ocispec.Descriptor) error {
		if i := nodeIndex(nodes, d); i >= 0 {
			post[i]++
			verifrt.Assert(pre[i] == post[i], "C04.callbacks.postcopy-after-its-precopy")
		}
		return nil
	}
	opts.OnCopySkipped = func(ctx context.Context, d ocispec.Descriptor) error {
		if i := nodeIndex(nodes, d); i >= 0 {
			skipped[i]++
		}
		return nil
	}
	err := ExtendedCopyGraph(context.Background(), src, dst, nodes[1].desc, opts)
	verifrt.Assert(err == nil, "C04.extended.succeeds")
	verifrt.Assert(rec.maxFlight <= conc, "C04.inflight.source")
	verifrt.Assert(dst.maxFlight <= conc, "C04.inflight.destination")
	for i := range nodes {
		verifrt.Assert(rec.fetches[i] <= 1, "C04.once.fetch")
		verifrt.Assert(dst.pushes[i] <= 1, "C04.once.push")
		verifrt.Assert(pre[i] <= 1 && post[i] <= 1, "C04.callbacks.once-per-node")
		verifrt.Assert(pre[i] == dst.pushes[i] && post[i] == dst.pushes[i], "C04.callbacks.exactly-one-pre-and-post-per-transfer")
		verifrt.Assert(skipped[i] <= 1, "C04.callbacks.skipped-at-most-once")
	}
	if err == nil {
		for i := range nodes {
			assertCopied(inner, nodes, i, "C04.extended.copied")
		}
	}
	verifrt.Reach("C04.extended.end")
}
