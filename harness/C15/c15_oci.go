//go:build verif

package oci

import (
	"bytes"
	"context"
	"fmt"
	"os"

	"oras.land/oras-go/v2/content"
	"oras.land/oras-go/v2/internal/verifrt"
)

// VerifC15OCITags: the OCI-layout Tags listing (live store and read-only store over the same
// directory) delivers exactly the tags that sort after `last`, sorted, each once — for `last`
// empty, equal to a tag, between tags, before all and after all.
func VerifC15OCITags() {
	ctx := context.Background()
	root := verifrt.TempDir()
	s, err := New(root)
	if err != nil {
		panic(err)
	}
	blob := []byte("x")
	desc := content.NewDescriptorFromBytes("application/octet-stream", blob)
	if err := s.Push(ctx, desc, bytes.NewReader(blob)); err != nil {
		panic(err)
	}
	all := []string{"b", "d", "f"}
	var have []string
	for _, t := range all {
		if verifrt.Bool() {
			if err := s.Tag(ctx, desc, t); err != nil {
				panic(err)
			}
			have = append(have, t)
		}
	}
	last := []string{"", "a", "b", "c", "d", "e", "f", "g"}[verifrt.Choice(8)]
	var want []string
	for _, t := range have {
		if t > last {
			want = append(want, t)
		}
	}
	verifrt.Event(fmt.Sprintf("tags=%v last=%q", have, last))
	list := func(st interface {
		Tags(ctx context.Context, last string, fn func(tags []string) error) error
	}, label string) {
		var got []string
		err := st.Tags(ctx, last, func(tags []string) error { got = append(got, tags...); return nil })
		verifrt.Assert(err == nil, label+".succeeds")
		verifrt.Assert(fmt.Sprint(got) == fmt.Sprint(want), label+".exactly-the-tags-after-last-sorted")
	}
	list(s, "C15.oci-tags.live")
	ro, err := NewFromFS(ctx, os.DirFS(root))
	verifrt.Assert(err == nil, "C15.oci-tags.reopen")
	if err == nil {
		list(ro, "C15.oci-tags.readonly")
	}
	verifrt.Reach("C15.oci-tags.end")
}
