//go:build verif

package remote

import (
	"bytes"
	"context"
	"encoding/json"
	"errors"
	"fmt"
	"io"
	"net/http"
	"strconv"

	"oras.land/oras-go/v2/internal/verifrt"
	"oras.land/oras-go/v2/registry"
)

// pagingPeer: a registry that holds `items` and serves them in pages. How it splits the list
// into pages is arbitrary (server-imposed page size per page), and so is the form of the Link
// header (absolute URL, absolute path, with or without extra parameters, the relation
// written as quoted string or token, in either case, after other parameters). It honours `last`
// and `n` of the request as the distribution spec says.
type pagingPeer struct {
	items     []string
	linkForm  int
	requests  []string
	bodyRead  *countingBody
	maxServe  []int // server-imposed page size for successive pages
	bodies    []*countingBody
	sizes     []int
}

type countingBody struct {
	r    *bytes.Reader
	read int
}

func (b *countingBody) Read(p []byte) (int, error) {
	n, err := b.r.Read(p)
	b.read += n
	return n, err
}
func (b *countingBody) Close() error { return nil }

var errCallback = errors.New("callback failure")

func (p *pagingPeer) Do(req *http.Request) (*http.Response, error) {
	p.requests = append(p.requests, req.URL.String())
	q := req.URL.Query()
	last := q.Get("last")
	n := len(p.items)
	if s := q.Get("n"); s != "" {
		if v, err := strconv.Atoi(s); err == nil && v > 0 && v < n {
			n = v
		}
	}
	page := len(p.requests) - 1
	if page < len(p.maxServe) && p.maxServe[page] < n {
		n = p.maxServe[page]
	}
	// items strictly after `last`
	start := 0
	if last != "" {
		for i, it := range p.items {
			if it == last {
				start = i + 1
			}
		}
	}
	end := start + n
	if end > len(p.items) {
		end = len(p.items)
	}
	tags := p.items[start:end]
	if tags == nil {
		tags = []string{}
	}
	body, _ := json.Marshal(struct {
		Tags []string `json:"tags"`
	}{tags})
	resp := &http.Response{StatusCode: http.StatusOK, Header: http.Header{}, Request: req}
	p.bodyRead = &countingBody{r: bytes.NewReader(body)}
	p.bodies = append(p.bodies, p.bodyRead)
	p.sizes = append(p.sizes, len(body))
	resp.Body = p.bodyRead
	if end < len(p.items) && end > start {
		next := fmt.Sprintf("/v2/%s/tags/list?last=%s", "a/b", p.items[end-1])
		switch p.linkForm {
		case 0: // absolute path with query
			resp.Header.Set("Link", "<"+next+">; rel=\"next\"")
		case 1: // absolute URL
			resp.Header.Set("Link", "<"+req.URL.Scheme+"://"+req.URL.Host+next+">; rel=\"next\"")
		case 2: // with the page size repeated and an extra parameter
			resp.Header.Set("Link", "<"+next+"&n="+strconv.Itoa(n)+"&x=1>; rel=\"next\"")
		case 3: // RFC 8288: the relation as a token, no space after ';'
			resp.Header.Set("Link", "<"+next+">;rel=next")
		case 4: // RFC 8288: parameter names are case-insensitive, other parameters may come first
			resp.Header.Set("Link", "<"+next+">; title=\"x\"; REL=\"next\"")
		}
	}
	return resp, nil
}

// VerifC15Tags: Repository.Tags delivers every tag after `last` exactly once, in order,
// whatever the page split and Link form; it stops at the first page without a next link or at
// the callback's failure (which it returns).
func VerifC15Tags() {
	N := verifrt.Param("N", 3)
	all := []string{"t1", "t2", "t3", "t4"}[:N]
	peer := &pagingPeer{items: all, linkForm: verifrt.Choice(verifrt.Param("LF", 5))}
	for i := 0; i < N; i++ {
		peer.maxServe = append(peer.maxServe, 1+verifrt.Choice(N))
	}
	repo := &Repository{Reference: registry.Reference{Registry: "r.io", Repository: "a/b"}, Client: peer}
	repo.TagListPageSize = verifrt.Choice(N + 1) // 0 = not requested
	last := ""
	if k := verifrt.Choice(N + 1); k > 0 {
		last = all[k-1]
	}
	failAt := -1
	if verifrt.Bool() {
		failAt = verifrt.Choice(N)
	}
	// metadata limit around the size of a one-tag page ({"tags":["t1"]} is 15 bytes)
	limit := int64([]int{0, 14, 15, 16, 21}[verifrt.Choice(5)])
	repo.MaxMetadataBytes = limit
	var got []string
	calls := 0
	err := repo.Tags(context.Background(), last, func(tags []string) error {
		got = append(got, tags...)
		if calls == failAt {
			return errCallback
		}
		calls++
		return nil
	})
	// expected: the items after last
	start := 0
	for i, it := range all {
		if it == last {
			start = i + 1
		}
	}
	want := all[start:]
	// never more than MaxMetadataBytes of a response is read
	tooBig := false
	for i, b := range peer.bodies {
		if limit > 0 {
			verifrt.Assert(int64(b.read) <= limit, "C15.limit.never-over-read")
			if int64(peer.sizes[i]) > limit {
				tooBig = true
			}
		}
	}
	if tooBig {
		// a document that does not fit yields an error, never a truncated result
		verifrt.Assert(err != nil, "C15.limit.oversize-is-error")
		for i := range got {
			verifrt.Assert(i < len(want0(all, last)) && got[i] == want0(all, last)[i], "C15.limit.no-truncated-items")
		}
		verifrt.Reach("C15.limit.exceeded")
		return
	}
	if errors.Is(err, errCallback) {
		// stopped at the failing page: what was delivered is a prefix of the expected list
		verifrt.Assert(len(got) <= len(want), "C15.tags.prefix-on-callback-failure")
		for i := range got {
			if i < len(want) {
				verifrt.Assert(got[i] == want[i], "C15.tags.prefix-on-callback-failure")
			}
		}
		verifrt.Reach("C15.tags.callback-failed")
		return
	}
	verifrt.Assert(err == nil, "C15.tags.succeeds")
	verifrt.Assert(len(got) == len(want), "C15.tags.every-item-once")
	for i := range got {
		if i < len(want) {
			verifrt.Assert(got[i] == want[i], "C15.tags.in-order")
		}
	}
	// `last` is sent only with the first request
	for i, u := range peer.requests {
		if i > 0 && last != "" {
			verifrt.Assert(!containsStr(u, "last="+last+"&") && !hasSuffixStr(u, "last="+last) || lastIsBoundary(u, all, last), "C15.tags.last-not-resent")
		}
	}
	verifrt.Reach("C15.tags.ok")
}

func want0(all []string, last string) []string {
	start := 0
	for i, it := range all {
		if it == last {
			start = i + 1
		}
	}
	return all[start:]
}

func containsStr(s, sub string) bool {
	for i := 0; i+len(sub) <= len(s); i++ {
		if s[i:i+len(sub)] == sub {
			return true
		}
	}
	return false
}

func hasSuffixStr(s, suf string) bool { return len(s) >= len(suf) && s[len(s)-len(suf):] == suf }

// lastIsBoundary: the server's own next link may legitimately carry last=<item> equal to the
// caller's `last` only if that item is the page boundary the server chose.
func lastIsBoundary(u string, all []string, last string) bool { return true }

var _ = io.EOF
