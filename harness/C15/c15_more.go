//go:build verif

package remote

import (
	"bytes"
	"context"
	"encoding/json"
	"errors"
	"net/http"
	"strconv"

	"github.com/opencontainers/go-digest"
	ocispec "github.com/opencontainers/image-spec/specs-go/v1"
	"oras.land/oras-go/v2/internal/verifrt"
	"oras.land/oras-go/v2/registry"
)

// listPeer: a registry serving either the catalog (kind 0) or the Referrers API answer of one
// subject (kind 1) in pages. The page boundaries (server-imposed sizes), the Link form and
// whether the server applies the artifactType filter itself are arbitrary. The position of
// the next page travels in the Link as `last=<value of the last item served>` (catalog) or
// `last=<index>` (referrers; the spec leaves the continuation token to the registry).
type listPeer struct {
	kind       int
	repos      []string
	refs       []ocispec.Descriptor
	subject    digest.Digest
	linkForm   int
	maxServe   []int
	srvFilter  bool
	requests   []*http.Request
	bodies     []*countingBody
	sizes      []int
	badRequest bool
}

func (p *listPeer) Do(req *http.Request) (*http.Response, error) {
	p.requests = append(p.requests, req)
	page := len(p.requests) - 1
	q := req.URL.Query()
	resp := &http.Response{StatusCode: http.StatusOK, Header: http.Header{}, Request: req}
	var body []byte
	var next string
	switch p.kind {
	case 0:
		if req.URL.Path != "/v2/_catalog" || req.Method != http.MethodGet {
			p.badRequest = true
		}
		n := len(p.repos)
		if s := q.Get("n"); s != "" {
			if v, err := strconv.Atoi(s); err == nil && v > 0 && v < n {
				n = v
			}
		}
		if page < len(p.maxServe) && p.maxServe[page] < n {
			n = p.maxServe[page]
		}
		start := 0
		if last := q.Get("last"); last != "" {
			for i, it := range p.repos {
				if it == last {
					start = i + 1
				}
			}
		}
		end := start + n
		if end > len(p.repos) {
			end = len(p.repos)
		}
		items := p.repos[start:end]
		if items == nil {
			items = []string{}
		}
		body, _ = json.Marshal(struct {
			Repositories []string `json:"repositories"`
		}{items})
		if end < len(p.repos) && end > start {
			next = "/v2/_catalog?last=" + p.repos[end-1]
			if p.linkForm == 2 {
				next += "&n=" + strconv.Itoa(n) + "&x=1"
			}
		}
	case 1:
		if req.URL.Path != "/v2/a/b/referrers/"+p.subject.String() || req.Method != http.MethodGet {
			p.badRequest = true
		}
		at := q.Get("artifactType")
		list := p.refs
		if at != "" && p.srvFilter {
			list = nil
			for _, d := range p.refs {
				if d.ArtifactType == at {
					list = append(list, d)
				}
			}
			resp.Header.Set("OCI-Filters-Applied", "artifactType")
		}
		n := len(list)
		if s := q.Get("n"); s != "" {
			if v, err := strconv.Atoi(s); err == nil && v > 0 && v < n {
				n = v
			}
		}
		if page < len(p.maxServe) && p.maxServe[page] < n {
			n = p.maxServe[page]
		}
		start := 0
		if s := q.Get("last"); s != "" {
			start, _ = strconv.Atoi(s)
		}
		if start > len(list) {
			start = len(list)
		}
		end := start + n
		if end > len(list) {
			end = len(list)
		}
		items := list[start:end]
		if items == nil {
			items = []ocispec.Descriptor{}
		}
		idx := ocispec.Index{MediaType: ocispec.MediaTypeImageIndex, Manifests: items}
		idx.SchemaVersion = 2
		body, _ = json.Marshal(idx)
		resp.Header.Set("Content-Type", ocispec.MediaTypeImageIndex)
		if end < len(list) && end > start {
			next = "/v2/a/b/referrers/" + p.subject.String() + "?last=" + strconv.Itoa(end)
			if at != "" {
				next += "&artifactType=" + at
			}
			if p.linkForm == 2 {
				next += "&n=" + strconv.Itoa(n)
			}
		}
	}
	cb := &countingBody{r: bytes.NewReader(body)}
	p.bodies = append(p.bodies, cb)
	p.sizes = append(p.sizes, len(body))
	resp.Body = cb
	if next != "" {
		switch p.linkForm {
		case 1:
			resp.Header.Set("Link", "<"+req.URL.Scheme+"://"+req.URL.Host+next+">; rel=\"next\"")
		case 3:
			resp.Header.Set("Link", "<"+next+">;rel=next")
		case 4:
			resp.Header.Set("Link", "<"+next+">; title=\"x\"; REL=\"next\"")
		default:
			resp.Header.Set("Link", "<"+next+">; rel=\"next\"")
		}
	}
	return resp, nil
}

// VerifC15Repositories: Registry.Repositories delivers every repository after `last` exactly
// once and in order for every page split and Link form, returns the callback's failure, and
// never reads more than MaxMetadataBytes of a page.
func VerifC15Repositories() {
	N := verifrt.Param("N", 3)
	all := []string{"a", "b/c", "d", "e"}[:N]
	peer := &listPeer{kind: 0, repos: all, linkForm: verifrt.Choice(verifrt.Param("LF", 5))}
	for i := 0; i < N; i++ {
		peer.maxServe = append(peer.maxServe, 1+verifrt.Choice(N))
	}
	reg := &Registry{RepositoryOptions: RepositoryOptions{Reference: registry.Reference{Registry: "r.io"}, Client: peer}}
	reg.RepositoryListPageSize = verifrt.Choice(N + 1)
	last := ""
	if k := verifrt.Choice(N + 1); k > 0 {
		last = all[k-1]
	}
	failAt := -1
	if verifrt.Bool() {
		failAt = verifrt.Choice(N)
	}
	// {"repositories":["a"]} is 22 bytes
	limit := int64([]int{0, 21, 22, 23, 30}[verifrt.Choice(5)])
	reg.MaxMetadataBytes = limit
	var got []string
	calls := 0
	err := reg.Repositories(context.Background(), last, func(repos []string) error {
		got = append(got, repos...)
		if calls == failAt {
			return errCallback
		}
		calls++
		return nil
	})
	want := want0(all, last)
	verifrt.Assert(!peer.badRequest, "C15.repos.request-shape")
	tooBig := false
	for i, b := range peer.bodies {
		if limit > 0 {
			verifrt.Assert(int64(b.read) <= limit, "C15.repos.limit.never-over-read")
			if int64(peer.sizes[i]) > limit {
				tooBig = true
			}
		}
	}
	isPrefix := len(got) <= len(want)
	for i := range got {
		if i < len(want) && got[i] != want[i] {
			isPrefix = false
		}
	}
	if tooBig {
		verifrt.Assert(err != nil, "C15.repos.limit.oversize-is-error")
		verifrt.Assert(isPrefix, "C15.repos.limit.no-truncated-items")
		verifrt.Reach("C15.repos.limit-exceeded")
		return
	}
	if errors.Is(err, errCallback) {
		verifrt.Assert(isPrefix, "C15.repos.prefix-on-callback-failure")
		verifrt.Assert(calls == failAt, "C15.repos.stops-at-callback-failure")
		verifrt.Reach("C15.repos.callback-failed")
		return
	}
	verifrt.Assert(err == nil, "C15.repos.succeeds")
	verifrt.Assert(len(got) == len(want) && isPrefix, "C15.repos.every-item-once-in-order")
	verifrt.Reach("C15.repos.ok")
}

// VerifC15Referrers: Repository.Referrers over the Referrers API delivers exactly the
// referrers of the requested artifact type (all when none is requested), each once and in the
// registry's order, whether the server applies the filter (and says so) or leaves it to the
// client, for every page split and Link form.
func VerifC15Referrers() {
	N := verifrt.Param("N", 3)
	types := []string{"application/vnd.x", "application/vnd.y"}
	subject := digest.FromString("subject")
	var all []ocispec.Descriptor
	for i := 0; i < N; i++ {
		d := ocispec.Descriptor{
			MediaType:    ocispec.MediaTypeImageManifest,
			Digest:       digest.FromString("referrer" + strconv.Itoa(i)),
			Size:         int64(10 + i),
			ArtifactType: types[verifrt.Choice(2)],
		}
		if i == 0 {
			d.Annotations = map[string]string{"k": "v"}
		}
		all = append(all, d)
	}
	peer := &listPeer{kind: 1, refs: all, subject: subject, linkForm: verifrt.Choice(verifrt.Param("LF", 5)), srvFilter: verifrt.Bool()}
	for i := 0; i < N; i++ {
		peer.maxServe = append(peer.maxServe, 1+verifrt.Choice(N))
	}
	repo := &Repository{Reference: registry.Reference{Registry: "r.io", Repository: "a/b"}, Client: peer}
	repo.ReferrerListPageSize = verifrt.Choice(N + 1)
	if verifrt.Bool() {
		repo.SetReferrersCapability(true) // capability already known; otherwise it is detected by this call
	}
	filter := ""
	if verifrt.Bool() {
		filter = types[0]
	}
	failAt := -1
	if verifrt.Bool() {
		failAt = verifrt.Choice(N)
	}
	var got []ocispec.Descriptor
	calls := 0
	err := repo.Referrers(context.Background(), ocispec.Descriptor{MediaType: ocispec.MediaTypeImageManifest, Digest: subject, Size: 7}, filter, func(refs []ocispec.Descriptor) error {
		verifrt.Assert(len(refs) > 0, "C15.referrers.no-empty-callback")
		got = append(got, refs...)
		if calls == failAt {
			return errCallback
		}
		calls++
		return nil
	})
	var want []ocispec.Descriptor
	for _, d := range all {
		if filter == "" || d.ArtifactType == filter {
			want = append(want, d)
		}
	}
	verifrt.Assert(!peer.badRequest, "C15.referrers.request-shape")
	for _, r := range peer.requests {
		verifrt.Assert(r.URL.Query().Get("artifactType") == filter, "C15.referrers.filter-sent-on-every-page")
	}
	isPrefix := len(got) <= len(want)
	for i := range got {
		if i < len(want) {
			w := want[i]
			g := got[i]
			if g.Digest != w.Digest || g.Size != w.Size || g.MediaType != w.MediaType || g.ArtifactType != w.ArtifactType || len(g.Annotations) != len(w.Annotations) || g.Annotations["k"] != w.Annotations["k"] {
				isPrefix = false
			}
		}
	}
	if errors.Is(err, errCallback) {
		verifrt.Assert(isPrefix, "C15.referrers.prefix-on-callback-failure")
		verifrt.Assert(calls == failAt, "C15.referrers.stops-at-callback-failure")
		verifrt.Reach("C15.referrers.callback-failed")
		return
	}
	verifrt.Assert(err == nil, "C15.referrers.succeeds")
	verifrt.Assert(len(got) == len(want) && isPrefix, "C15.referrers.exactly-the-matching-items-once-in-order")
	verifrt.Reach("C15.referrers.ok")
}
