//go:build verif

package oras

import (
	"context"
	"fmt"
	"os"
	"path/filepath"
	"sort"
	"strings"
	"time"

	"github.com/opencontainers/go-digest"
	ocispec "github.com/opencontainers/image-spec/specs-go/v1"
	"oras.land/oras-go/v2/content"
	"oras.land/oras-go/v2/content/file"
	"oras.land/oras-go/v2/content/memory"
	"oras.land/oras-go/v2/content/oci"
	"oras.land/oras-go/v2/internal/verifrt"
)

// c12Long is longer than the 100-byte name field of a ustar header (PAX record needed).
var c12Long = strings.Repeat("n", 101)

type c12Entry struct {
	rel    string // path below the directory
	kind   int    // 0 file, 1 directory, 2 symlink
	mode   os.FileMode
	data   []byte
	target string
}

// c12Data: file content of length min..max: symbolic bytes (param symdata=1) or fixed distinct bytes.
var c12Next byte

// c12ForceConcrete: an OCI-layout store names blob files by digest; with symbolic content the file
// name itself would be symbolic, so paths through the OCI intermediate store use concrete content.
var c12ForceConcrete bool

func c12Data(min, max int) []byte {
	if verifrt.Param("symdata", 0) != 0 && !c12ForceConcrete {
		return verifrt.Bytes(min, max)
	}
	n := min + verifrt.Choice(max-min+1)
	b := make([]byte, n)
	for i := range b {
		c12Next++
		b[i] = 'A' + c12Next
	}
	return b
}

// c12Tree picks a tree: one entry of arbitrary kind, name, mode and content, plus simple companions.
func c12Tree(K int) []c12Entry {
	names := []string{"a", "b.txt", "é", c12Long, "sub/c"}
	modes := []os.FileMode{0o644, 0o600, 0o755}
	var tree []c12Entry
	e0 := c12Entry{rel: names[verifrt.Choice(len(names))], kind: verifrt.Choice(3), mode: modes[verifrt.Choice(len(modes))]}
	switch e0.kind {
	case 0:
		e0.data = c12Data(0, 2)
	case 2:
		// link texts, clean and not (a link text is data: it comes back verbatim)
		e0.target = []string{"z", "sub/zz", "../d/z", "./z", "sub/../z"}[verifrt.Choice(5)]
		e0.mode = 0o777
	}
	tree = append(tree, e0)
	if K >= 2 {
		tree = append(tree, c12Entry{rel: "z", kind: 0, mode: 0o644, data: c12Data(1, 1)})
	}
	if K >= 3 {
		switch verifrt.Choice(3) {
		case 0:
			tree = append(tree, c12Entry{rel: "sub/zz", kind: 0, mode: 0o600, data: c12Data(0, 1)})
		case 1:
			tree = append(tree, c12Entry{rel: "empty", kind: 1, mode: 0o755})
		case 2:
			tree = append(tree, c12Entry{rel: "sub/l", kind: 2, mode: 0o777, target: "../z"})
		}
	}
	return tree
}

func c12Build(root string, tree []c12Entry, mtime time.Time) {
	must := func(err error) {
		if err != nil {
			panic(err)
		}
	}
	must(os.MkdirAll(root, 0o755))
	for _, e := range tree {
		p := filepath.Join(root, filepath.FromSlash(e.rel))
		must(os.MkdirAll(filepath.Dir(p), 0o755))
		switch e.kind {
		case 0:
			must(os.WriteFile(p, e.data, e.mode))
			must(os.Chmod(p, e.mode))
			must(os.Chtimes(p, mtime, mtime))
		case 1:
			must(os.Mkdir(p, e.mode))
			must(os.Chmod(p, e.mode))
			must(os.Chtimes(p, mtime, mtime))
		case 2:
			must(os.Symlink(e.target, p))
		}
	}
}

// c12Snapshot lists a tree: relative path -> "kind mode content-or-target".
func c12Snapshot(root string, withModes bool) map[string]string {
	out := map[string]string{}
	var walk func(dir, rel string)
	walk = func(dir, rel string) {
		ents, err := os.ReadDir(dir)
		if err != nil {
			out[rel+"!"] = "unreadable: " + err.Error()
			return
		}
		for _, de := range ents {
			p := filepath.Join(dir, de.Name())
			r := de.Name()
			if rel != "" {
				r = rel + "/" + de.Name()
			}
			fi, err := os.Lstat(p)
			if err != nil {
				out[r] = "lstat: " + err.Error()
				continue
			}
			mode := ""
			if withModes {
				mode = fmt.Sprintf(" %o", fi.Mode().Perm())
			}
			switch {
			case fi.Mode()&os.ModeSymlink != 0:
				t, _ := os.Readlink(p)
				out[r] = "link -> " + t
			case fi.IsDir():
				out[r] = "dir" + mode
				walk(p, r)
			default:
				b, _ := os.ReadFile(p)
				out[r] = "file" + mode + " " + string(b)
			}
		}
	}
	walk(root, "")
	return out
}

func c12Keys(m map[string]string) []string {
	var ks []string
	for k := range m {
		ks = append(ks, k)
	}
	sort.Strings(ks)
	return ks
}

// VerifC12RoundTrip: a directory added to a file store, packed into a manifest, copied through
// a memory or OCI-layout store into a second file store comes back under the same name with the
// same tree (paths, bytes, link targets, modes subject to the umask unless PreservePermissions);
// the descriptor's digest and size are those of the stored bytes.
func VerifC12RoundTrip() {
	ctx := context.Background()
	K := verifrt.Param("K", 2)
	useOCI := verifrt.Param("oci", 0) != 0 && verifrt.Bool()
	c12ForceConcrete = useOCI
	c12Next = 0
	tree := c12Tree(K)
	c12ForceConcrete = false
	srcRoot := verifrt.TempDir()
	dstRoot := verifrt.TempDir()
	c12Build(filepath.Join(srcRoot, "d"), tree, time.Unix(1_600_000_000, 0))

	src, err := file.New(srcRoot)
	if err != nil {
		panic(err)
	}
	defer src.Close()
	src.TarReproducible = verifrt.Bool()
	desc, err := src.Add(ctx, "d", "", "")
	verifrt.Assert(err == nil, "C12.add.succeeds")
	if err != nil {
		return
	}
	// digest and size are those of the stored bytes
	blob, err := content.FetchAll(ctx, src, desc)
	verifrt.Assert(err == nil, "C12.descriptor.fetchable")
	if err == nil {
		verifrt.Assert(int64(len(blob)) == desc.Size, "C12.descriptor.size-of-stored-bytes")
		verifrt.Assert(digest.FromBytes(blob) == desc.Digest, "C12.descriptor.digest-of-stored-bytes")
	}
	man, err := PackManifest(ctx, src, PackManifestVersion1_1, "application/vnd.test", PackManifestOptions{Layers: []ocispec.Descriptor{desc}})
	verifrt.Assert(err == nil, "C12.pack.succeeds")
	if err != nil {
		return
	}
	if err := src.Tag(ctx, man, "v1"); err != nil {
		panic(err)
	}
	var mid Target
	if useOCI {
		o, err := oci.New(verifrt.TempDir())
		if err != nil {
			panic(err)
		}
		mid = o
	} else {
		mid = memory.New()
	}
	_, err = Copy(ctx, src, "v1", mid, "v1", DefaultCopyOptions)
	if err != nil {
		verifrt.Debug("copy-out", err.Error())
	}
	verifrt.Assert(err == nil, "C12.copy-out.succeeds")
	if err != nil {
		return
	}
	dst, err := file.New(dstRoot)
	if err != nil {
		panic(err)
	}
	defer dst.Close()
	dst.PreservePermissions = verifrt.Bool()
	_, err = Copy(ctx, mid, "v1", dst, "v1", DefaultCopyOptions)
	verifrt.Assert(err == nil, "C12.copy-in.succeeds")
	if err != nil {
		return
	}
	want := c12Snapshot(filepath.Join(srcRoot, "d"), dst.PreservePermissions)
	got := c12Snapshot(filepath.Join(dstRoot, "d"), dst.PreservePermissions)
	verifrt.Assert(fmt.Sprint(c12Keys(want)) == fmt.Sprint(c12Keys(got)), "C12.tree.same-paths")
	for _, k := range c12Keys(want) {
		verifrt.Assert(want[k] == got[k], "C12.tree.same-entries")
	}
	if !dst.PreservePermissions {
		// without PreservePermissions the modes are the source modes subject to the umask
		wantM := c12Snapshot(filepath.Join(srcRoot, "d"), true)
		gotM := c12Snapshot(filepath.Join(dstRoot, "d"), true)
		for _, e := range tree {
			if e.kind == 0 {
				w := fmt.Sprintf("file %o ", e.mode&^os.FileMode(verifrt.Umask()))
				verifrt.Assert(strings.HasPrefix(gotM[e.rel], w), "C12.tree.modes-subject-to-umask")
			}
		}
		_ = wantM
	}
	verifrt.Reach("C12.roundtrip.end")
}
