//go:build verif

package oras

import (
	"bytes"
	"context"
	"fmt"
	"os"
	"path/filepath"
	"time"

	"github.com/opencontainers/go-digest"
	ocispec "github.com/opencontainers/image-spec/specs-go/v1"
	"oras.land/oras-go/v2/content"
	"oras.land/oras-go/v2/content/file"
	"oras.land/oras-go/v2/content/memory"
	"oras.land/oras-go/v2/internal/verifrt"
)

// VerifC12Reproducible: with TarReproducible two trees with equal names, modes, link targets and
// contents give the same descriptor (digest, size, uncompressed digest) whatever their timestamps;
// without it the descriptor still describes the stored bytes.
func VerifC12Reproducible() {
	ctx := context.Background()
	K := verifrt.Param("K", 2)
	tree := c12Tree(K)
	// timestamps: a symbolic instant near the epoch, a recent date, or the largest ustar value
	stamp := func() int64 {
		off := verifrt.Int64()
		verifrt.Assume(off >= 0)
		verifrt.Assume(off < 4)
		return []int64{0, 1_600_000_000, 1<<33 - 4}[verifrt.Choice(3)] + off
	}
	t1 := stamp()
	t2 := stamp()
	var descs [2]ocispec.Descriptor
	for i, ts := range []int64{t1, t2} {
		root := verifrt.TempDir()
		c12Build(filepath.Join(root, "d"), tree, time.Unix(ts, 0))
		st, err := file.New(root)
		if err != nil {
			panic(err)
		}
		st.TarReproducible = true
		d, err := st.Add(ctx, "d", "", "")
		verifrt.Assert(err == nil, "C12.add.succeeds")
		if err != nil {
			return
		}
		descs[i] = d
		st.Close()
	}
	verifrt.Assert(descs[0].Digest == descs[1].Digest, "C12.reproducible.same-digest")
	verifrt.Assert(descs[0].Size == descs[1].Size, "C12.reproducible.same-size")
	verifrt.Assert(descs[0].Annotations[file.AnnotationDigest] == descs[1].Annotations[file.AnnotationDigest], "C12.reproducible.same-uncompressed-digest")
	verifrt.Assert(descs[0].MediaType == descs[1].MediaType && descs[0].Annotations[ocispec.AnnotationTitle] == descs[1].Annotations[ocispec.AnnotationTitle], "C12.reproducible.same-descriptor")
	verifrt.Reach("C12.reproducible.end")
}

// VerifC12Duplicates: two files with the same bytes and different names (and a third with other
// bytes), packed into one manifest and copied through a memory store into a second file store:
// every name materialises with its bytes (unless ForceCAS), whatever order the layers are listed in.
func VerifC12Duplicates() {
	ctx := context.Background()
	srcRoot := verifrt.TempDir()
	dstRoot := verifrt.TempDir()
	data := c12Data(1, 2)
	other := c12Data(1, 1)
	same := verifrt.Bool() // third file has the same bytes as well
	files := []struct {
		name string
		data []byte
	}{{"x", data}, {"sub/y", data}, {"z", other}}
	if same {
		files[2].data = data
	}
	src, err := file.New(srcRoot)
	if err != nil {
		panic(err)
	}
	defer src.Close()
	var layers []ocispec.Descriptor
	for _, f := range files {
		p := filepath.Join(srcRoot, filepath.FromSlash(f.name))
		if err := os.MkdirAll(filepath.Dir(p), 0o755); err != nil {
			panic(err)
		}
		if err := os.WriteFile(p, f.data, 0o644); err != nil {
			panic(err)
		}
		d, err := src.Add(ctx, f.name, "", "")
		verifrt.Assert(err == nil, "C12.add.succeeds")
		if err != nil {
			return
		}
		verifrt.Assert(d.Size == int64(len(f.data)) && d.Digest == digest.FromBytes(f.data), "C12.descriptor.digest-of-stored-bytes")
		layers = append(layers, d)
	}
	if verifrt.Bool() {
		layers[0], layers[1] = layers[1], layers[0]
	}
	man, err := PackManifest(ctx, src, PackManifestVersion1_1, "application/vnd.test", PackManifestOptions{Layers: layers})
	verifrt.Assert(err == nil, "C12.pack.succeeds")
	if err != nil {
		return
	}
	if err := src.Tag(ctx, man, "v1"); err != nil {
		panic(err)
	}
	mid := memory.New()
	if _, err := Copy(ctx, src, "v1", mid, "v1", DefaultCopyOptions); err != nil {
		verifrt.Assert(false, "C12.copy-out.succeeds")
		return
	}
	dst, err := file.New(dstRoot)
	if err != nil {
		panic(err)
	}
	defer dst.Close()
	dst.ForceCAS = verifrt.Bool()
	opts := DefaultCopyOptions
	opts.Concurrency = 1 + verifrt.Choice(2)
	_, err = Copy(ctx, mid, "v1", dst, "v1", opts)
	verifrt.Assert(err == nil, "C12.copy-in.succeeds")
	if err != nil {
		return
	}
	present := 0
	for _, f := range files {
		b, err := os.ReadFile(filepath.Join(dstRoot, filepath.FromSlash(f.name)))
		verifrt.Assert(err == nil || dst.ForceCAS, "C12.duplicates.every-name-materialises")
		if err == nil {
			present++
			verifrt.Assert(bytes.Equal(b, f.data), "C12.duplicates.same-bytes")
		}
	}
	// with ForceCAS one name per distinct content is guaranteed
	verifrt.Assert(present >= 1, "C12.duplicates.content-present")
	verifrt.Reach("C12.duplicates.end")
}

// VerifC12Unpack: the directory blob pushed into a file store is unpacked only when the recorded
// uncompressed digest matches (a wrong digest is refused); with SkipUnpack the blob is stored as a
// file under its name, byte for byte.
func VerifC12Unpack() {
	ctx := context.Background()
	tree := c12Tree(verifrt.Param("K", 2))
	srcRoot := verifrt.TempDir()
	dstRoot := verifrt.TempDir()
	c12Build(filepath.Join(srcRoot, "d"), tree, time.Unix(1_600_000_000, 0))
	src, err := file.New(srcRoot)
	if err != nil {
		panic(err)
	}
	defer src.Close()
	src.TarReproducible = verifrt.Bool()
	desc, err := src.Add(ctx, "d", "", "")
	verifrt.Assert(err == nil, "C12.add.succeeds")
	if err != nil {
		return
	}
	blob, err := content.FetchAll(ctx, src, desc)
	if err != nil {
		verifrt.Assert(false, "C12.descriptor.fetchable")
		return
	}
	dst, err := file.New(dstRoot)
	if err != nil {
		panic(err)
	}
	defer dst.Close()
	switch verifrt.Choice(3) {
	case 0: // wrong uncompressed digest: refused
		bad := desc
		bad.Annotations = map[string]string{}
		for k, v := range desc.Annotations {
			bad.Annotations[k] = v
		}
		bad.Annotations[file.AnnotationDigest] = digest.FromString("something else").String()
		err := dst.Push(ctx, bad, bytes.NewReader(blob))
		verifrt.Assert(err != nil, "C12.unpack.wrong-uncompressed-digest-refused")
		verifrt.Reach("C12.unpack.refused")
	case 1: // SkipUnpack: stored as a file
		dst.SkipUnpack = true
		err := dst.Push(ctx, desc, bytes.NewReader(blob))
		verifrt.Assert(err == nil, "C12.unpack.skip.push-succeeds")
		b, rerr := os.ReadFile(filepath.Join(dstRoot, "d"))
		verifrt.Assert(rerr == nil && bytes.Equal(b, blob), "C12.unpack.skip.stored-as-file")
		verifrt.Reach("C12.unpack.skipped")
	case 2: // a blob that does not match the descriptor's own digest is refused and nothing is unpacked
		if len(blob) == 0 {
			return
		}
		tampered := append([]byte(nil), blob...)
		tampered[len(tampered)-1] ^= 1
		err := dst.Push(ctx, desc, bytes.NewReader(tampered))
		verifrt.Assert(err != nil, "C12.unpack.tampered-blob-refused")
		_, serr := os.Lstat(filepath.Join(dstRoot, "d", "z"))
		verifrt.Assert(serr != nil, "C12.unpack.tampered-blob-not-unpacked")
		verifrt.Reach("C12.unpack.tampered")
	}
	_ = fmt.Sprint
}
