//go:build verif

package oci

import (
	"context"
	"encoding/json"
	"os"
	"path/filepath"

	"github.com/opencontainers/go-digest"
	ocispec "github.com/opencontainers/image-spec/specs-go/v1"
	"oras.land/oras-go/v2/internal/verifrt"
)

func applyDelete(ctx context.Context, s *Store, nodes []vnode, m *refModel, i int) {
	if err := s.Delete(ctx, nodes[i].desc); err == nil {
		modelDeletePlain(nodes, m, i)
	}
}

func modelDeletePlain(nodes []vnode, m *refModel, i int) {
	for j := range nodes {
		if sameBlob(nodes[j].desc, nodes[i].desc) {
			m.stored[j] = false
		}
	}
	for ref, n := range m.tags {
		if sameBlob(nodes[n].desc, nodes[i].desc) {
			delete(m.tags, ref)
		}
	}
}

func applyGC(ctx context.Context, s *Store, nodes []vnode, m *refModel) {
	if err := s.GC(ctx); err == nil {
		modelGC(nodes, m)
	}
}

func copyModel(m *refModel) *refModel {
	c := &refModel{stored: append([]bool(nil), m.stored...), tags: map[string]int{}}
	for k, v := range m.tags {
		c.tags[k] = v
	}
	return c
}

// VerifC10Crash: the process dies at an arbitrary point (before any mutating file-system
// primitive, or in the middle of a write) of one Push/Tag/Untag/Delete/SaveIndex/GC after a
// short history; then the directory is opened again by a fresh process.
func VerifC10Crash() {
	K := verifrt.Param("K", 2)
	k := verifrt.Param("k", 1)
	ctx := context.Background()
	nodes := symDAG(K)
	root := verifrt.TempDir()
	s, err := New(root)
	if err != nil {
		panic(err)
	}
	s.AutoGC = false
	m := &refModel{stored: make([]bool, K), tags: map[string]int{}}
	applyHistory(ctx, s, nodes, m, k, false, true)

	before := copyModel(m)
	after := copyModel(m)
	op := verifrt.Choice(6)
	if p := verifrt.Param("pinop", 0); p > 0 {
		op = p - 1 // development aid / focused entries: only this operation is interrupted
	}
	node := verifrt.Choice(K)
	ref := ociRefs[verifrt.Choice(len(ociRefs))]
	// expected tag mapping after the operation (if it completes)
	switch op {
	case 1: // Tag
		if storedIdx(nodes, m, node) {
			after.tags[ref] = node
		}
	case 2: // Untag
		delete(after.tags, ref)
	case 3: // Delete
		if storedIdx(nodes, m, node) {
			modelDeletePlain(nodes, after, node)
		}
	case 5: // GC
		modelGC(nodes, after)
	}
	verifrt.AfterCrash(func() {
		s2, err := New(root)
		verifrt.Assert(err == nil, "C10.reopens")
		// every file under blobs/ is complete and matches its name
		algDir := filepath.Join(root, ocispec.ImageBlobsDir, "sha256")
		ents, _ := os.ReadDir(algDir)
		for _, e := range ents {
			b, rerr := os.ReadFile(filepath.Join(algDir, e.Name()))
			verifrt.Assert(rerr == nil && digest.FromBytes(b).Encoded() == e.Name(), "C10.blobs-complete")
		}
		// every index entry names an existing blob
		if ib, rerr := os.ReadFile(filepath.Join(root, ocispec.ImageIndexFile)); rerr == nil {
			var index ocispec.Index
			if json.Unmarshal(ib, &index) == nil {
				for _, d := range index.Manifests {
					_, serr := os.Stat(filepath.Join(algDir, d.Digest.Encoded()))
					verifrt.Assert(serr == nil, "C10.index-consistent")
				}
			}
		}
		if err != nil {
			return
		}
		// the tag mapping is the one before or the one after the interrupted operation
		matches := func(want *refModel) bool {
			var tags []string
			s2.Tags(ctx, "", func(t []string) error { tags = append(tags, t...); return nil })
			if len(tags) != len(want.tags) {
				return false
			}
			for r, n := range want.tags {
				d, rerr := s2.Resolve(ctx, r)
				if rerr != nil || d.Digest != nodes[n].desc.Digest {
					return false
				}
			}
			return true
		}
		verifrt.Assert(matches(before) || matches(after), "C10.tags-before-or-after")
		// effects of operations that had returned are present: content stored before the
		// interrupted operation and not touched by it is still there
		for i := range nodes {
			if storedIdx(nodes, before, i) && storedIdx(nodes, after, i) {
				ok, _ := s2.Exists(ctx, nodes[i].desc)
				verifrt.Assert(ok, "C10.durable")
			}
		}
		verifrt.Reach("C10.recovered")
	})
	verifrt.CrashPoint()
	switch op {
	case 0:
		verifrt.Event(sprintf("crash during Push(node%d)", node))
		s.Push(ctx, nodes[node].desc, newBytesReader(nodes[node].bytes))
	case 1:
		verifrt.Event(sprintf("crash during Tag(node%d,%s)", node, ref))
		s.Tag(ctx, nodes[node].desc, ref)
	case 2:
		verifrt.Event(sprintf("crash during Untag(%s)", ref))
		s.Untag(ctx, ref)
	case 3:
		verifrt.Event(sprintf("crash during Delete(node%d)", node))
		s.Delete(ctx, nodes[node].desc)
	case 4:
		verifrt.Event("crash during SaveIndex")
		s.SaveIndex()
	case 5:
		verifrt.Event("crash during GC")
		s.GC(ctx)
	}
	verifrt.Reach("C10.no-crash")
}
