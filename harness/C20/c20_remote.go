//go:build verif

package remote

import (
	"oras.land/oras-go/v2/internal/verifrt"
	"oras.land/oras-go/v2/registry"
)

func c20IsWord(c byte) bool {
	return verifrt.Or(verifrt.Or(verifrt.And(c >= 'a', c <= 'z'), verifrt.And(c >= 'A', c <= 'Z')),
		verifrt.Or(verifrt.And(c >= '0', c <= '9'), c == '_'))
}

func c20SpecTag(s string) bool {
	if len(s) == 0 || len(s) > 128 {
		return false
	}
	ok := c20IsWord(s[0])
	for i := 1; i < len(s); i++ {
		c := s[i]
		ok = verifrt.And(ok, verifrt.Or(c20IsWord(c), verifrt.Or(c == '.', c == '-')))
	}
	return ok
}

func c20SpecDigest(s string) bool {
	if len(s) != 7+64 {
		return false // only sha256 digests are generated here
	}
	ok := verifrt.StrEq(s[:7], "sha256:")
	for i := 7; i < len(s); i++ {
		c := s[i]
		ok = verifrt.And(ok, verifrt.Or(verifrt.And(c >= '0', c <= '9'), verifrt.And(c >= 'a', c <= 'f')))
	}
	return ok
}

// slotSafe: the reference can be placed in a URL path segment without creating another
// segment, a query or a fragment.
func slotSafe(s string) bool {
	ok := true
	for i := 0; i < len(s); i++ {
		c := s[i]
		ok = verifrt.And(ok, verifrt.And(verifrt.And(c != '/', c != '?'), verifrt.And(c != '#', verifrt.And(c != '%', c != ' '))))
	}
	return ok
}

func sameRef(a, b registry.Reference) bool {
	return verifrt.And(verifrt.StrEq(a.Registry, b.Registry), verifrt.And(verifrt.StrEq(a.Repository, b.Repository), verifrt.StrEq(a.Reference, b.Reference)))
}

// VerifC20Repo: Repository.ParseReference maps tag / digest / tag@digest / fully qualified
// forms to the same reference, rejects other registries, repositories and empty
// references, and every URL builder keeps the reference in its own path segment.
func VerifC20Repo() {
	S := verifrt.Param("S", 3)
	base := registry.Reference{Registry: "r.io", Repository: "a/b"}
	repo := &Repository{Reference: base}
	plain := verifrt.Bool()
	scheme := "https"
	if plain {
		scheme = "http"
	}

	// the reference part: a short arbitrary string, or a digest with arbitrary characters
	var part string
	isDigestShape := false
	switch verifrt.Choice(3) {
	case 0:
		part = verifrt.StringOver("aA0._-/:@", 0, S)
	case 1:
		part = "sha256:" + verifrt.StringOver("0123456789abcdefgA", 64, 64)
		isDigestShape = true
	default:
		part = verifrt.StringOver("aA0._-", 0, 2) + "@sha256:" + verifrt.StringOver("0123456789abcdefgA", 64, 64)
	}
	// not judged: parts ending in a bare ':' or '@' (lenient "no reference")
	if len(part) > 0 {
		last := part[len(part)-1]
		verifrt.Assume(verifrt.And(last != ':', last != '@'))
	}

	short, errShort := repo.ParseReference(part)
	if errShort == nil {
		verifrt.Assert(verifrt.And(verifrt.StrEq(short.Registry, base.Registry), verifrt.StrEq(short.Repository, base.Repository)), "C20.repo.base")
		verifrt.Assert(len(short.Reference) > 0, "C20.repo.nonempty")
		verifrt.Assert(verifrt.Or(c20SpecTag(short.Reference), c20SpecDigest(short.Reference)), "C20.repo.tag-or-digest")
		verifrt.Assert(slotSafe(short.Reference), "C20.url.slot-safe")
		want := scheme + "://r.io/v2/a/b/manifests/" + short.Reference
		verifrt.Assert(verifrt.StrEq(buildRepositoryManifestURL(plain, short), want), "C20.url.manifest")
		wantB := scheme + "://r.io/v2/a/b/blobs/" + short.Reference
		verifrt.Assert(verifrt.StrEq(buildRepositoryBlobURL(plain, short), wantB), "C20.url.blob")
		wantR := scheme + "://r.io/v2/a/b/referrers/" + short.Reference
		verifrt.Assert(verifrt.StrEq(buildReferrersURL(plain, short, ""), wantR), "C20.url.referrers")
		verifrt.Reach("C20.repo.accepted")
	} else {
		verifrt.Reach("C20.repo.rejected")
	}

	// fully qualified forms of the same reference part
	sep := ":"
	if isDigestShape {
		sep = "@"
	}
	if len(part) > 0 && part[0] == '@' {
		sep = ""
	}
	full, errFull := repo.ParseReference("r.io/a/b" + sep + part)
	// a part that itself contains '/' changes the repository of the qualified form: not comparable
	hasSlash := false
	for i := 0; i < len(part); i++ {
		hasSlash = verifrt.Or(hasSlash, part[i] == '/')
	}
	if !hasSlash {
		verifrt.Assert((errShort == nil) == (errFull == nil), "C20.repo.qualified-agrees")
		if errShort == nil && errFull == nil {
			verifrt.Assert(sameRef(short, full), "C20.repo.qualified-same")
			verifrt.Reach("C20.repo.qualified")
		}
	}
	// other registry / other repository are rejected whatever the reference part is
	_, errOtherReg := repo.ParseReference("x.io/a/b" + sep + part)
	_, errOtherRepo := repo.ParseReference("r.io/a/c" + sep + part)
	if !hasSlash {
		verifrt.Assert(errOtherReg != nil, "C20.repo.other-registry")
		verifrt.Assert(errOtherRepo != nil, "C20.repo.other-repository")
	}
}
