//go:build verif

package registry

import (
	"oras.land/oras-go/v2/internal/verifrt"
)

// ---- independent recognisers written from the documented grammar (branch-free automata) ----

func isLowerAlnum(c byte) bool {
	return verifrt.Or(verifrt.And(c >= 'a', c <= 'z'), verifrt.And(c >= '0', c <= '9'))
}

func isWord(c byte) bool {
	return verifrt.Or(isLowerAlnum(c), verifrt.Or(verifrt.And(c >= 'A', c <= 'Z'), c == '_'))
}

// specRepository: path components separated by '/', each component
//   alnum+ ( ( '.' | '_' | '__' | '-'+ ) alnum+ )*
// automaton states: 0 = at start of component (need alnum), 1 = in alnum run,
// 2 = after one '.', 3 = after one '_', 4 = after '__', 5 = after '-'+ ; 9 = dead
func specRepository(s string) bool {
	st := 0
	for i := 0; i < len(s); i++ {
		c := s[i]
		an := isLowerAlnum(c)
		nx := 9
		// from 0: alnum -> 1
		nx = verifrt.Ite(verifrt.And(st == 0, an), 1, nx)
		// from 1: alnum ->1, '.'->2, '_'->3, '-'->5, '/'->0
		nx = verifrt.Ite(verifrt.And(st == 1, an), 1, nx)
		nx = verifrt.Ite(verifrt.And(st == 1, c == '.'), 2, nx)
		nx = verifrt.Ite(verifrt.And(st == 1, c == '_'), 3, nx)
		nx = verifrt.Ite(verifrt.And(st == 1, c == '-'), 5, nx)
		nx = verifrt.Ite(verifrt.And(st == 1, c == '/'), 0, nx)
		// from 2 ('.'): alnum -> 1
		nx = verifrt.Ite(verifrt.And(st == 2, an), 1, nx)
		// from 3 ('_'): alnum -> 1, '_' -> 4
		nx = verifrt.Ite(verifrt.And(st == 3, an), 1, nx)
		nx = verifrt.Ite(verifrt.And(st == 3, c == '_'), 4, nx)
		// from 4 ('__'): alnum -> 1
		nx = verifrt.Ite(verifrt.And(st == 4, an), 1, nx)
		// from 5 ('-'+): alnum -> 1, '-' -> 5
		nx = verifrt.Ite(verifrt.And(st == 5, an), 1, nx)
		nx = verifrt.Ite(verifrt.And(st == 5, c == '-'), 5, nx)
		st = nx
	}
	return st == 1
}

// specTag: [A-Za-z0-9_][A-Za-z0-9_.-]{0,127}
func specTag(s string) bool {
	if len(s) == 0 || len(s) > 128 {
		return false
	}
	ok := isWord(s[0])
	for i := 1; i < len(s); i++ {
		c := s[i]
		ok = verifrt.And(ok, verifrt.Or(isWord(c), verifrt.Or(c == '.', c == '-')))
	}
	return ok
}

// specRegistryPlain: host [ ":" digits ] with host a non-empty run of letters, digits, '.', '-'.
// (Only such authorities are generated; others are left to net/url and not judged.)
func specRegistryPlain(s string) bool {
	if len(s) == 0 {
		return false
	}
	// state 0 = in host (need >= 1 char), 1 = in host with >=1 char, 2 = in port, 9 dead
	st := 0
	for i := 0; i < len(s); i++ {
		c := s[i]
		hostc := verifrt.Or(verifrt.Or(verifrt.And(c >= 'a', c <= 'z'), verifrt.And(c >= 'A', c <= 'Z')),
			verifrt.Or(verifrt.And(c >= '0', c <= '9'), verifrt.Or(c == '.', c == '-')))
		digit := verifrt.And(c >= '0', c <= '9')
		nx := 9
		nx = verifrt.Ite(verifrt.And(st <= 1, hostc), 1, nx)
		nx = verifrt.Ite(verifrt.And(st == 1, c == ':'), 2, nx)
		nx = verifrt.Ite(verifrt.And(st == 2, digit), 2, nx)
		st = nx
	}
	return verifrt.Or(st == 1, st == 2)
}

func specHexLower(s string) bool {
	ok := true
	for i := 0; i < len(s); i++ {
		c := s[i]
		ok = verifrt.And(ok, verifrt.Or(verifrt.And(c >= '0', c <= '9'), verifrt.And(c >= 'a', c <= 'f')))
	}
	return ok
}

// specDigest: "sha256:" 64 hex | "sha384:" 96 hex | "sha512:" 128 hex (lower case)
func specDigest(s string) bool {
	if len(s) == 7+64 {
		return verifrt.And(verifrt.StrEq(s[:7], "sha256:"), specHexLower(s[7:]))
	}
	if len(s) == 7+96 {
		return verifrt.And(verifrt.StrEq(s[:7], "sha384:"), specHexLower(s[7:]))
	}
	if len(s) == 7+128 {
		return verifrt.And(verifrt.StrEq(s[:7], "sha512:"), specHexLower(s[7:]))
	}
	return false
}

// firstIndex returns the index of the first occurrence of c in s (concretised), or -1.
func firstIndex(s string, c byte) int {
	for i := 0; i < len(s); i++ {
		if s[i] == c {
			return i
		}
	}
	return -1
}

// specParse: the documented grammar  registry "/" repository [ ":" tag ] [ "@" digest ].
func specParse(s string) (ok bool, registry, repository, reference string) {
	i := firstIndex(s, '/')
	if i < 0 {
		return false, "", "", ""
	}
	registry = s[:i]
	path := s[i+1:]
	tag, dig := "", ""
	hasTag, hasDig := false, false
	if j := firstIndex(path, '@'); j >= 0 {
		hasDig = true
		dig = path[j+1:]
		path = path[:j]
	}
	if k := firstIndex(path, ':'); k >= 0 {
		hasTag = true
		tag = path[k+1:]
		path = path[:k]
	}
	repository = path
	ok = verifrt.And(specRegistryPlain(registry), specRepository(repository))
	if hasDig {
		// a tag before a digest is dropped without validation (documented form B)
		ok = verifrt.And(ok, specDigest(dig))
		reference = dig
	} else if hasTag {
		ok = verifrt.And(ok, specTag(tag))
		reference = tag
	}
	return ok, registry, repository, reference
}

const c20Alphabet = "aA0._-/:@"

func judgeReference(s string) {
	// strings ending in a bare ':' or '@' are leniently treated as "no reference": not judged
	if len(s) > 0 {
		last := s[len(s)-1]
		verifrt.Assume(verifrt.And(last != ':', last != '@'))
	}
	ref, err := ParseReference(s)
	specOK, reg, repo, r := specParse(s)
	// authorities outside the plain host[:port] shape are left to net/url: not judged
	i := firstIndex(s, '/')
	if i >= 0 {
		regPart := s[:i]
		plainChars := true
		colons := 0
		for k := 0; k < len(regPart); k++ {
			c := regPart[k]
			if c == ':' {
				colons++
			}
			if c == '@' || c == '_' {
				plainChars = false
			}
		}
		// a host with several colons, '_' or user-info, or an empty host with a port (":80") is an
		// authority only net/url can adjudicate
		verifrt.Assume(verifrt.And(plainChars, colons <= 1))
		if len(regPart) > 0 {
			verifrt.Assume(regPart[0] != ':')
		}
	}
	if err == nil {
		verifrt.Assert(specOK, "C20.accept.only-grammar")
		verifrt.Assert(verifrt.And(verifrt.StrEq(ref.Registry, reg), verifrt.And(verifrt.StrEq(ref.Repository, repo), verifrt.StrEq(ref.Reference, r))), "C20.accept.parts")
		// round trip
		ref2, err2 := ParseReference(ref.String())
		verifrt.Assert(err2 == nil, "C20.roundtrip.parses")
		verifrt.Assert(verifrt.And(verifrt.StrEq(ref2.Registry, ref.Registry), verifrt.And(verifrt.StrEq(ref2.Repository, ref.Repository), verifrt.StrEq(ref2.Reference, ref.Reference))), "C20.roundtrip.same")
		verifrt.Reach("C20.accepted")
	} else {
		verifrt.Assert(!specOK, "C20.accept.all-grammar")
		verifrt.Assert(verifrt.And(ref.Registry == "", verifrt.And(ref.Repository == "", ref.Reference == "")), "C20.reject.zero-value")
		verifrt.Reach("C20.rejected")
	}
}

// VerifC20RegistryChars: "<registry>/a" with the registry over host characters, ':' and the URL
// delimiters '?', '#', '%': anything but host[:port] is refused (a registry is a URL authority: no
// query, fragment or escape may ride in it).
func VerifC20RegistryChars() {
	S := verifrt.Param("S", 4)
	reg := verifrt.StringOver("a0.-:?#%", 1, S)
	judgeReference(reg + "/a")
}

// VerifC20Accept: every string up to S bytes over the characters that matter to the grammar.
func VerifC20Accept() {
	S := verifrt.Param("S", 5)
	s := verifrt.StringOver(c20Alphabet, 0, S)
	judgeReference(s)
}

// VerifC20Digest: digest-bearing references "a/b[:t]@<alg>:<hex>" with symbolic algorithm
// letters and hex digits of every registered length (and off-by-one lengths).
func VerifC20Digest() {
	algs := []string{"sha256", "sha384", "sha512", "sha25", "md5"}
	lens := []int{64, 96, 128, 63, 65}
	alg := algs[verifrt.Choice(len(algs))]
	n := lens[verifrt.Choice(len(lens))]
	hex := verifrt.StringOver("0123456789abcdefgA", n, n)
	prefix := "a/b@"
	if verifrt.Bool() {
		prefix = "a/b:T.1@"
	}
	judgeReference(prefix + alg + ":" + hex)
}
