//go:build verif

package oras

import (
	"context"

	"oras.land/oras-go/v2/content/memory"
	"oras.land/oras-go/v2/internal/verifrt"
)

// VerifC01CopyGraph: CopyGraph on a symbolic DAG, arbitrary root, arbitrary link-closed
// pre-populated destination, Concurrency 1..3: on success everything reachable from the
// root is in the destination byte-for-byte; every completed push found its successors
// present (C02.closed.at-push, asserted inside the destination).
func VerifC01CopyGraph() {
	K := verifrt.Param("K", 3)
	verifrt.Sched(verifrt.Param("sched", verifrt.SchedEager))
	nodes := symDAG(K)
	src := newSource(nodes)
	inner := memory.New()
	prepopulate(inner, nodes)
	dst := newRecStore(inner, nodes)
	dst.yield = verifrt.Param("yield", 0) != 0
	root := verifrt.Choice(K)
	opts := CopyGraphOptions{Concurrency: 1 + verifrt.Choice(verifrt.Param("maxconc", 2))}
	err := CopyGraph(context.Background(), src, dst, nodes[root].desc, opts)
	verifrt.Assert(err == nil, "C01.copygraph.succeeds")
	if err == nil {
		assertCopied(inner, nodes, root, "C01.copygraph")
		verifrt.Reach("C01.copygraph.ok")
	}
}
