//go:build verif

package oras

import (
	"bytes"
	"context"
	"encoding/json"

	"github.com/opencontainers/image-spec/specs-go"
	ocispec "github.com/opencontainers/image-spec/specs-go/v1"
	"oras.land/oras-go/v2/content"
	"oras.land/oras-go/v2/content/memory"
	"oras.land/oras-go/v2/content/oci"
	"oras.land/oras-go/v2/internal/verifrt"
)

// VerifC01SameBytesTwoTypesOCI: the same bytes reachable under two media types — a manifest M
// that the root names both as its subject and (under a blob media type) as a layer — copied into
// an OCI-layout destination, which keys content by digest only. Every cooperative schedule of
// the copy tasks is explored.
func VerifC01SameBytesTwoTypesOCI() {
	verifrt.Sched(verifrt.Param("sched", verifrt.SchedAll))
	ctx := context.Background()
	src := memory.New()
	push := func(mt string, b []byte) ocispec.Descriptor {
		d := content.NewDescriptorFromBytes(mt, b)
		if err := src.Push(ctx, d, bytes.NewReader(b)); err != nil {
			panic(err)
		}
		return d
	}
	b0 := push("application/vnd.oci.image.layer.v1.tar", []byte("b0"))
	b1 := push("application/vnd.oci.image.layer.v1.tar", []byte("b1"))
	mDoc := ocispec.Manifest{Versioned: specs.Versioned{SchemaVersion: 2}, MediaType: ocispec.MediaTypeImageManifest, Config: b1, Layers: []ocispec.Descriptor{}}
	mBytes, _ := json.Marshal(mDoc)
	m := push(ocispec.MediaTypeImageManifest, mBytes)
	alias := push("application/octet-stream", mBytes) // the same bytes under a blob media type
	// a chain of L manifests between the root and M (root -> S1 -> ... -> M through subject links)
	top := m
	for i := 0; i < verifrt.Param("L", 0); i++ {
		sub := top
		doc := ocispec.Manifest{Versioned: specs.Versioned{SchemaVersion: 2}, MediaType: ocispec.MediaTypeImageManifest, Config: b0,
			Layers: []ocispec.Descriptor{}, Subject: &sub, Annotations: map[string]string{"n": string(rune('0' + i))}}
		b, _ := json.Marshal(doc)
		top = push(ocispec.MediaTypeImageManifest, b)
	}
	rootDoc := ocispec.Manifest{Versioned: specs.Versioned{SchemaVersion: 2}, MediaType: ocispec.MediaTypeImageManifest, Config: b0,
		Layers: []ocispec.Descriptor{alias}, Subject: &top}
	rootBytes, _ := json.Marshal(rootDoc)
	root := push(ocispec.MediaTypeImageManifest, rootBytes)

	dst, err := oci.New(verifrt.TempDir())
	if err != nil {
		panic(err)
	}
	conc := 1 + verifrt.Choice(2)
	err = CopyGraph(ctx, src, dst, root, CopyGraphOptions{Concurrency: conc})
	verifrt.Assert(err == nil, "C01.alias-oci.succeeds")
	if err != nil {
		return
	}
	for _, d := range []ocispec.Descriptor{root, m, alias, b0, b1} {
		ok, eerr := dst.Exists(ctx, d)
		verifrt.Assert(eerr == nil && ok, "C01.alias-oci.reachable-node-present")
	}
	verifrt.Reach("C01.alias-oci.end")
}
