//go:build verif

package oras

import (
	"context"

	ocispec "github.com/opencontainers/image-spec/specs-go/v1"
	"oras.land/oras-go/v2/content"
	"oras.land/oras-go/v2/content/memory"
	"oras.land/oras-go/v2/internal/verifrt"
)

// VerifC01Copy: Copy by reference on a symbolic DAG whose root may be any node (manifest or
// blob), into a destination with an arbitrary link-closed pre-population (possibly holding the
// root already) in which the destination reference is absent or points at another node; the
// destination reference is left blank or given; MapRoot may replace the root by another node.
// On success the graph of the returned root is in the destination and the destination
// reference resolves to the returned root.
func VerifC01Copy() {
	ctx := context.Background()
	K := verifrt.Param("K", 3)
	nodes := symDAG(K)
	src := newSource(nodes)
	root := verifrt.Choice(K)
	if err := src.Tag(ctx, nodes[root].desc, "v1"); err != nil {
		panic(err)
	}
	dst := memory.New()
	pre := prepopulate(dst, nodes)
	dstRef := []string{"", "v2"}[verifrt.Choice(2)]
	eff := dstRef
	if eff == "" {
		eff = "v1"
	}
	// the destination reference may exist already and name another (present) node
	if verifrt.Bool() {
		j := verifrt.Choice(K)
		verifrt.Assume(pre[j])
		if err := dst.Tag(ctx, nodes[j].desc, eff); err != nil {
			panic(err)
		}
	}
	opts := DefaultCopyOptions
	opts.Concurrency = 1 + verifrt.Choice(verifrt.Param("maxconc", 1))
	want := root
	if verifrt.Param("maproot", 1) != 0 && verifrt.Bool() {
		mapped := verifrt.Choice(K)
		want = mapped
		opts.MapRoot = func(ctx context.Context, src content.ReadOnlyStorage, r ocispec.Descriptor) (ocispec.Descriptor, error) {
			return nodes[mapped].desc, nil
		}
	}
	got, err := Copy(ctx, src, "v1", dst, dstRef, opts)
	verifrt.Assert(err == nil, "C01.copy.succeeds")
	if err != nil {
		return
	}
	verifrt.Assert(content.Equal(got, nodes[want].desc), "C01.copy.returns-root")
	d, rerr := dst.Resolve(ctx, eff)
	verifrt.Assert(rerr == nil, "C01.copy.reference-resolves")
	if rerr == nil {
		verifrt.Assert(content.Equal(d, got), "C01.copy.reference-resolves-to-returned-root")
	}
	assertCopied(dst, nodes, want, "C01.copy")
	verifrt.Reach("C01.copy.ok")
}
