//go:build verif

package oras

import (
	"bytes"
	"context"

	"oras.land/oras-go/v2/content/memory"
	"oras.land/oras-go/v2/internal/status"
	"oras.land/oras-go/v2/internal/verifrt"
)

// VerifC02EnvOwned: one copy task against an arbitrary environment. What a task can observe of
// any other goroutine under any interleaving is a tracker entry that already exists (its channel
// still open or already closed) — so the tracker is pre-populated through its real API with an
// arbitrary such state for the successors of the root. Guarantees checked:
//   G2: the root is pushed only after every successor is present (asserted inside the destination)
//       — in particular the task must wait for a successor another goroutine still works on;
//   G1: when the task fails it does not close its own done channel.
func VerifC02EnvOwned() {
	K := verifrt.Param("K", 3)
	verifrt.Sched(verifrt.SchedLazy)
	nodes := symDAG(K)
	root := K - 1
	verifrt.Assume(nodes[root].kind != kindBlob && len(nodes[root].succ) > 0)
	src := newSource(nodes)
	inner := memory.New()
	dst := newRecStore(inner, nodes)
	plan := &faultPlan{max: verifrt.Param("F", 0)}
	dst.faultPlan = plan

	tracker := status.NewTracker()
	type owned struct {
		node int
		done chan struct{}
		open bool
	}
	var env []owned
	for _, j := range nodes[root].succ {
		if nodeIndex(nodes, nodes[j].desc) != j {
			continue
		}
		if verifrt.Bool() { // another goroutine already owns successor j
			done, committed := tracker.TryCommit(nodes[j].desc)
			if !committed {
				continue
			}
			o := owned{node: j, done: done, open: verifrt.Bool()}
			if !o.open {
				// the owner finished: by its own guarantee G1 the whole sub-graph is in the destination
				pushClosure(inner, nodes, j)
				close(done)
			}
			env = append(env, o)
		}
	}
	result := make(chan error, 1)
	go func() {
		result <- copyGraph(context.Background(), src, dst, nodes[root].desc, nil, nil, tracker, CopyGraphOptions{Concurrency: 1 + verifrt.Choice(2)})
	}()
	// let the task run until it finishes or blocks on an environment-owned successor
	verifrt.Quiesce()
	// now the environment completes its work, one successor at a time
	for _, o := range env {
		if o.open {
			pushClosure(inner, nodes, o.node)
			close(o.done)
			verifrt.Quiesce()
		}
	}
	err := <-result
	rootDone, committed := tracker.TryCommit(nodes[root].desc)
	verifrt.Assert(!committed, "C02.env.root-was-committed")
	closed := false
	select {
	case <-rootDone:
		closed = true
	default:
	}
	if err == nil {
		verifrt.Assert(plan.fired == 0, "C02.env.error-surfaces")
		verifrt.Assert(closed, "C02.env.done-closed-on-success")
		assertCopied(inner, nodes, root, "C02.env.copied")
		verifrt.Reach("C02.env.ok")
	} else {
		verifrt.Assert(!closed, "C02.env.no-close-on-error")
		verifrt.Reach("C02.env.failed")
	}
}

// pushClosure stores node i and everything below it (what a finished owner guarantees).
func pushClosure(st *memory.Store, nodes []vnode, i int) {
	for _, j := range nodes[i].succ {
		pushClosure(st, nodes, j)
	}
	ok, _ := st.Exists(context.Background(), nodes[i].desc)
	if !ok {
		if err := st.Push(context.Background(), nodes[i].desc, bytes.NewReader(nodes[i].bytes)); err != nil {
			panic(err)
		}
	}
}
