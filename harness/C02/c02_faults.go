//go:build verif

package oras

import (
	"context"

	"oras.land/oras-go/v2/content/memory"
	"oras.land/oras-go/v2/internal/verifrt"
)

// linkClosed: every node present in st has all its successors present.
func assertLinkClosed(st *memory.Store, nodes []vnode, label string) {
	for i := range nodes {
		ok, _ := st.Exists(context.Background(), nodes[i].desc)
		if !ok {
			continue
		}
		for _, j := range nodes[i].succ {
			okj, _ := st.Exists(context.Background(), nodes[j].desc)
			verifrt.Assert(okj, label)
		}
	}
}

// VerifC02Faults: CopyGraph with up to F injected errors (before or after the effect of any
// source Fetch/Exists or destination Exists/Push): the destination stays closed under links at
// every completed push and after the call, an injected fault surfaces as a non-nil error, no
// schedule explored ends blocked, and re-running without faults completes the graph.
func VerifC02Faults() {
	K := verifrt.Param("K", 3)
	verifrt.Sched(verifrt.Param("sched", verifrt.SchedEager))
	nodes := symDAG(K)
	srcInner := newSource(nodes)
	src := newRecStore(srcInner, nodes)
	inner := memory.New()
	prepopulate(inner, nodes)
	dst := newRecStore(inner, nodes)
	plan := &faultPlan{max: verifrt.Param("F", 1)}
	src.faultPlan = plan
	dst.faultPlan = plan
	root := verifrt.Choice(K)
	opts := CopyGraphOptions{Concurrency: 1 + verifrt.Choice(verifrt.Param("maxconc", 2))}
	err := CopyGraph(context.Background(), src, dst, nodes[root].desc, opts)
	assertLinkClosed(inner, nodes, "C02.closed.after")
	if plan.fired > 0 {
		verifrt.Assert(err != nil, "C02.error.surfaces")
		verifrt.Reach("C02.faulted")
		// retry without faults completes the graph
		plan.max = 0
		err2 := CopyGraph(context.Background(), src, dst, nodes[root].desc, opts)
		verifrt.Assert(err2 == nil, "C02.retry.succeeds")
		if err2 == nil {
			assertCopied(inner, nodes, root, "C02.retry")
		}
	} else {
		verifrt.Assert(err == nil, "C02.nofault.succeeds")
		if err == nil {
			assertCopied(inner, nodes, root, "C02.nofault")
		}
		verifrt.Reach("C02.nofault")
	}
}

// VerifC02Cancel: the context is cancelled at an arbitrary storage operation.
func VerifC02Cancel() {
	K := verifrt.Param("K", 3)
	verifrt.Sched(verifrt.Param("sched", verifrt.SchedEager))
	nodes := symDAG(K)
	src := newRecStore(newSource(nodes), nodes)
	inner := memory.New()
	prepopulate(inner, nodes)
	dst := newRecStore(inner, nodes)
	ctx, cancel := context.WithCancel(context.Background())
	cancelled := false
	hook := func() {
		if !cancelled && verifrt.Bool() {
			cancelled = true
			cancel()
		}
	}
	src.hook = hook
	dst.hook = hook
	root := verifrt.Choice(K)
	opts := CopyGraphOptions{Concurrency: 1 + verifrt.Choice(verifrt.Param("maxconc", 2))}
	if verifrt.Bool() {
		// cancelled before the call starts (no storage operation observes it)
		cancelled = true
		cancel()
		verifrt.Event("cancelled before the call")
	}
	err := CopyGraph(ctx, src, dst, nodes[root].desc, opts)
	assertLinkClosed(inner, nodes, "C02.cancel.closed-after")
	if err == nil {
		// success is only allowed if the whole graph really is there
		assertCopied(inner, nodes, root, "C02.cancel.success-means-complete")
		verifrt.Reach("C02.cancel.completed")
	} else {
		verifrt.Assert(cancelled, "C02.cancel.error-only-if-cancelled")
		verifrt.Reach("C02.cancel.failed")
	}
	cancel()
	// retry with a fresh context completes
	src.hook, dst.hook = nil, nil
	err2 := CopyGraph(context.Background(), src, dst, nodes[root].desc, opts)
	verifrt.Assert(err2 == nil, "C02.cancel.retry-succeeds")
	if err2 == nil {
		assertCopied(inner, nodes, root, "C02.cancel.retry")
	}
}
