//go:build verif

package oci

import (
	"context"
	"os"
	"path/filepath"

	"github.com/opencontainers/go-digest"
	ocispec "github.com/opencontainers/image-spec/specs-go/v1"
	"oras.land/oras-go/v2/content"
	"oras.land/oras-go/v2/internal/verifrt"
)

func countFiles(dir string) int {
	ents, err := os.ReadDir(dir)
	if err != nil {
		return 0
	}
	n := 0
	for _, e := range ents {
		if e.IsDir() {
			n += countFiles(filepath.Join(dir, e.Name()))
		} else {
			n++
		}
	}
	return n
}

// VerifC05OCIPush: Push into an OCI layout of a descriptor naming truth (concrete) with an
// arbitrary reader delivering arbitrary bytes: success only if the bytes are exactly truth;
// after a failure Exists is false, Fetch fails and blobs/ has no new file.
func VerifC05OCIPush() {
	S := verifrt.Param("S", 2)
	ctx := context.Background()
	root := verifrt.TempDir()
	store, err := New(root)
	if err != nil {
		panic(err)
	}
	truths := []string{"", "a", "ab", "abc", "abcd"}
	truth := []byte(truths[verifrt.Choice(S+1)])
	desc := ocispec.Descriptor{MediaType: "application/octet-stream", Digest: digest.FromBytes(truth), Size: int64(len(truth))}
	if verifrt.Bool() {
		// a descriptor that lies about the size
		desc.Size = int64(verifrt.Choice(S + 2))
	}
	r := &ndReader{data: verifrt.Bytes(0, S+1), maxCall: S + 4}
	before := countFiles(filepath.Join(root, "blobs"))
	err = store.Push(ctx, desc, r)
	after := countFiles(filepath.Join(root, "blobs"))
	exists, _ := store.Exists(ctx, desc)
	if err == nil {
		verifrt.Assert(desc.Size == int64(len(truth)), "C05.oci.size-matches")
		verifrt.Assert(len(r.data) == len(truth) && verifrt.BytesEq(r.data, truth), "C05.oci.only-truth-accepted")
		verifrt.Assert(exists, "C05.oci.visible-after-success")
		got, ferr := content.FetchAll(ctx, store, desc)
		verifrt.Assert(ferr == nil, "C05.oci.fetch-after-success")
		if ferr == nil {
			verifrt.Assert(len(got) == len(truth) && verifrt.BytesEq(got, truth), "C05.oci.fetch-bytes")
		}
		verifrt.Reach("C05.oci.ok")
	} else {
		verifrt.Assert(!exists, "C05.oci.invisible-after-failure")
		_, ferr := store.Fetch(ctx, desc)
		verifrt.Assert(ferr != nil, "C05.oci.fetch-fails-after-failure")
		verifrt.Assert(after == before, "C05.oci.no-new-blob-file")
		// (not asserted: a failed ingest leaves its temporary file under ingest/ — the deferred
		// os.Remove(path) runs after `return "", err` has cleared the named result `path`; the
		// statement only speaks about blobs/, so this is an observation, not a violation)
		verifrt.Reach("C05.oci.err")
	}
}
