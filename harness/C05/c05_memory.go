//go:build verif

package memory

import (
	"context"
	"errors"

	"github.com/opencontainers/go-digest"
	ocispec "github.com/opencontainers/image-spec/specs-go/v1"
	"oras.land/oras-go/v2/content"
	"oras.land/oras-go/v2/errdef"
	"oras.land/oras-go/v2/internal/verifrt"
)

// VerifC05MemoryPush: Push into the memory store (directly, and through the size-limited
// wrapper) of a descriptor naming `truth` with an arbitrary reader delivering arbitrary symbolic
// bytes: success only if the delivered bytes are exactly truth; after a failure Exists is false
// and Fetch fails; what Fetch returns afterwards is truth.
func VerifC05MemoryPush() {
	S := verifrt.Param("S", 2)
	ctx := context.Background()
	inner := New()
	var store content.Storage = inner
	limited := verifrt.Bool()
	limit := int64(0)
	if limited {
		limit = int64(verifrt.Choice(S + 2))
		store = content.LimitStorage(inner, limit)
	}
	truth := verifrt.Bytes(0, S)
	desc := ocispec.Descriptor{MediaType: "application/octet-stream", Digest: digest.FromBytes(truth), Size: int64(len(truth))}
	if verifrt.Bool() {
		desc.Size = int64(verifrt.Choice(S + 2)) // a descriptor that may lie about the size
	}
	r := &ndReader{data: verifrt.Bytes(0, S+1), maxCall: S + 4}
	err := store.Push(ctx, desc, r)
	exists, _ := inner.Exists(ctx, desc)
	if err == nil {
		verifrt.Assert(desc.Size == int64(len(truth)), "C05.memory.size-matches")
		// the first Size bytes the reader delivered are exactly truth (the statement does not require
		// Push to reject trailing bytes: the size-limited wrapper never looks beyond Size)
		verifrt.Assert(len(r.data) >= len(truth) && verifrt.BytesEq(r.data[:len(truth)], truth), "C05.memory.only-truth-accepted")
		if !limited {
			verifrt.Assert(len(r.data) == len(truth), "C05.memory.trailing-data-refused")
		}
		verifrt.Assert(exists, "C05.memory.visible-after-success")
		if limited {
			verifrt.Assert(desc.Size <= limit, "C05.limited.never-over-limit")
		}
		got, ferr := content.FetchAll(ctx, inner, desc)
		verifrt.Assert(ferr == nil && len(got) == len(truth) && verifrt.BytesEq(got, truth), "C05.memory.fetch-bytes")
		verifrt.Reach("C05.memory.ok")
	} else {
		verifrt.Assert(!exists, "C05.memory.invisible-after-failure")
		_, ferr := inner.Fetch(ctx, desc)
		verifrt.Assert(errors.Is(ferr, errdef.ErrNotFound), "C05.memory.fetch-fails-after-failure")
		if limited && desc.Size > limit {
			verifrt.Assert(errors.Is(err, errdef.ErrSizeExceedsLimit), "C05.limited.oversize-refused")
			verifrt.Assert(r.calls == 0, "C05.limited.oversize-not-read")
		}
		verifrt.Reach("C05.memory.err")
	}
}
