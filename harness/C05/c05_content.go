//go:build verif

package content

import (
	"errors"
	"io"

	"github.com/opencontainers/go-digest"
	ocispec "github.com/opencontainers/image-spec/specs-go/v1"
	"oras.land/oras-go/v2/internal/verifrt"
)

// ndReader is an arbitrary io.Reader: the stream it will deliver is data; every Read
// returns an arbitrary prefix of what is left (arbitrary chunking, up to 2 empty reads),
// io.EOF exactly when the stream is exhausted (together with or after the last bytes), or
// an arbitrary other error at any point.
type ndReader struct {
	data    []byte
	pos     int
	calls   int
	zero    int
	sawEOF  bool
	failed  bool
	maxCall int
}

var errNd = errors.New("nd reader failure")

func (r *ndReader) Read(p []byte) (int, error) {
	r.calls++
	verifrt.Assume(r.calls <= r.maxCall)
	rem := len(r.data) - r.pos
	max := len(p)
	if rem < max {
		max = rem
	}
	n := verifrt.Choice(max + 1)
	copy(p, r.data[r.pos:r.pos+n])
	r.pos += n
	// outcomes: 0 = nil (only if progress was made or an empty read is still allowed),
	// 1 = other error, 2 = io.EOF (only at the end of the stream)
	kinds := 2
	if r.pos == len(r.data) {
		kinds = 3
	}
	lo := 0
	if n == 0 && len(p) > 0 && r.zero >= 2 {
		lo = 1
	}
	kind := lo + verifrt.Choice(kinds-lo)
	switch kind {
	case 2:
		r.sawEOF = true
		return n, io.EOF
	case 1:
		r.failed = true
		return n, errNd
	}
	if n == 0 && len(p) > 0 {
		r.zero++
	}
	return n, nil
}

// VerifC05ReadAll: ReadAll returns data only when length and digest match and nothing follows.
func VerifC05ReadAll() {
	S := verifrt.Param("S", 2)
	truth := verifrt.Bytes(0, S)
	size := verifrt.Int64()
	verifrt.Assume(verifrt.And(size >= -1, size <= int64(S+1)))
	desc := ocispec.Descriptor{MediaType: "application/octet-stream", Digest: digest.FromBytes(truth), Size: size}
	r := &ndReader{data: verifrt.Bytes(0, S+1), maxCall: S + 4}
	buf, err := ReadAll(r, desc)
	if err == nil {
		verifrt.Assert(int64(len(buf)) == size, "C05.readall.len")
		verifrt.Assert(verifrt.BytesEq(buf, truth), "C05.readall.match")
		verifrt.Assert(verifrt.BytesEq(r.data, truth), "C05.readall.no-trailing")
		verifrt.Assert(!r.failed, "C05.readall.no-swallowed-error")
		verifrt.Reach("C05.readall.ok")
	} else {
		verifrt.Assert(buf == nil, "C05.readall.err-no-data")
		verifrt.Reach("C05.readall.err")
		if size < 0 {
			verifrt.Assert(errors.Is(err, ErrInvalidDescriptorSize), "C05.readall.negsize")
			verifrt.Reach("C05.readall.negsize")
		}
	}
}
