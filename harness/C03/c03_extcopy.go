//go:build verif

package oras

import (
	"context"
	"fmt"

	"oras.land/oras-go/v2/content/memory"
	"oras.land/oras-go/v2/internal/verifrt"
)

// parents (ground truth, from the generator's edge list): i is a parent of j when i's document
// names j. A foreign layer entry carries another media type and therefore names a different
// content-addressed object than the generated node, so it is not a link to that node.
func parentsOf(nodes []vnode, j int) []int {
	var r []int
	for i := range nodes {
		named := false
		for _, c := range nodes[i].links {
			if nodeIndex(nodes, nodes[c].desc) == nodeIndex(nodes, nodes[j].desc) {
				named = true
			}
		}
		if named {
			r = append(r, i)
		}
	}
	return r
}

// ancestorDist: minimal number of predecessor steps from start to each node (-1 = not an ancestor).
func ancestorDist(nodes []vnode, start int) []int {
	dist := make([]int, len(nodes))
	for i := range dist {
		dist[i] = -1
	}
	dist[start] = 0
	// nodes with equal content are the same object
	for i := range nodes {
		if nodeIndex(nodes, nodes[i].desc) == nodeIndex(nodes, nodes[start].desc) {
			dist[i] = 0
		}
	}
	for changed := true; changed; {
		changed = false
		for j := range nodes {
			if dist[j] < 0 {
				continue
			}
			for _, p := range parentsOf(nodes, j) {
				if dist[p] < 0 || dist[p] > dist[j]+1 {
					dist[p] = dist[j] + 1
					changed = true
				}
			}
		}
	}
	return dist
}

// VerifC03ExtCopy: ExtendedCopyGraph from an arbitrary node of a symbolic DAG held by a real
// memory store (its Predecessors index is the real one).
func VerifC03ExtCopy() {
	K := verifrt.Param("K", 3)
	verifrt.Sched(verifrt.Param("sched", verifrt.SchedEager))
	nodes := symDAG(K)
	src := newSource(nodes)
	inner := memory.New()
	dst := newRecStore(inner, nodes)
	start := verifrt.Choice(K)
	depth := verifrt.Choice(verifrt.Param("maxdepth", 2) + 1) // 0 = unlimited
	verifrt.Event(fmt.Sprintf("start=%d depth=%d", start, depth))
	opts := ExtendedCopyGraphOptions{Depth: depth}
	opts.Concurrency = 1 + verifrt.Choice(verifrt.Param("maxconc", 2))
	err := ExtendedCopyGraph(context.Background(), src, dst, nodes[start].desc, opts)
	verifrt.Assert(err == nil, "C03.extcopy.succeeds")
	if err != nil {
		return
	}
	dist := ancestorDist(nodes, start)
	// the given node's own graph is always there
	assertCopied(inner, nodes, start, "C03.own-graph")
	// allowed[i]: i lies in the graph of some ancestor within the depth limit
	allowed := make([]bool, K)
	required := make([]bool, K)
	for a := range nodes {
		if dist[a] < 0 {
			continue
		}
		if depth == 0 || dist[a] <= depth {
			r := reachable(nodes, a)
			for i := range r {
				if r[i] {
					allowed[i] = true
					if depth == 0 {
						required[i] = true
					}
				}
			}
		}
	}
	for i := range nodes {
		ok, _ := inner.Exists(context.Background(), nodes[i].desc)
		// equal content under another index counts as the same object
		same := false
		for k := range nodes {
			if allowed[k] && nodeIndex(nodes, nodes[k].desc) == nodeIndex(nodes, nodes[i].desc) {
				same = true
			}
		}
		if ok {
			verifrt.Assert(same, "C03.depth.nothing-outside")
		}
		if required[i] {
			verifrt.Assert(ok, "C03.unlimited.upward-closure")
		}
	}
	if depth == 0 {
		verifrt.Reach("C03.unlimited")
	} else {
		verifrt.Reach("C03.limited")
	}
}
