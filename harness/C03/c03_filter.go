//go:build verif

package oras

import (
	"bytes"
	"context"
	"encoding/json"
	"regexp"

	"github.com/opencontainers/image-spec/specs-go"
	ocispec "github.com/opencontainers/image-spec/specs-go/v1"
	"oras.land/oras-go/v2/content"
	"oras.land/oras-go/v2/content/memory"
	"oras.land/oras-go/v2/internal/verifrt"
)

var c03FilterX = regexp.MustCompile(`^x`)

// a pattern that also matches the empty string (a missing annotation is not an empty one)
var c03FilterOpt = regexp.MustCompile(`^x?$`)

// VerifC03Filter: a referrer (image manifest or index with a subject) of the start node is
// followed exactly when that manifest's artifact type (artifactType, else config media type)
// or annotation value satisfies the filter — independently of whether the descriptors the
// source was populated with happen to carry artifactType / annotations.
func VerifC03Filter() {
	ctx := context.Background()
	src := memory.New()
	blob := []byte("b0")
	blobDesc := content.NewDescriptorFromBytes("application/octet-stream", blob)
	must(src.Push(ctx, blobDesc, bytes.NewReader(blob)))
	// subject
	sub := ocispec.Manifest{Versioned: specs.Versioned{SchemaVersion: 2}, MediaType: ocispec.MediaTypeImageManifest, Config: blobDesc, Layers: []ocispec.Descriptor{}}
	subBytes, _ := json.Marshal(sub)
	subDesc := content.NewDescriptorFromBytes(ocispec.MediaTypeImageManifest, subBytes)
	must(src.Push(ctx, subDesc, bytes.NewReader(subBytes)))

	// referrer with symbolic artifact type (possibly empty), config media type and annotation
	artifactType := verifrt.StringOver("xy", 0, 1)
	cfgType := "t/" + verifrt.StringOver("xy", 1, 1)
	annValue := verifrt.StringOver("xy", 0, 1)
	hasAnn := verifrt.Bool()
	cfgDesc := blobDesc
	cfgDesc.MediaType = cfgType
	must(src.Push(ctx, cfgDesc, bytes.NewReader(blob)))
	var ann map[string]string
	if hasAnn {
		ann = map[string]string{"k": annValue}
	}
	isIndex := verifrt.Param("index", 0) != 0 && verifrt.Bool()
	var refBytes []byte
	mediaType := ocispec.MediaTypeImageManifest
	if isIndex {
		mediaType = ocispec.MediaTypeImageIndex
		idx := ocispec.Index{Versioned: specs.Versioned{SchemaVersion: 2}, MediaType: mediaType, ArtifactType: artifactType,
			Manifests: []ocispec.Descriptor{}, Subject: &subDesc, Annotations: ann}
		refBytes, _ = json.Marshal(idx)
	} else {
		ref := ocispec.Manifest{Versioned: specs.Versioned{SchemaVersion: 2}, MediaType: mediaType, ArtifactType: artifactType,
			Config: cfgDesc, Layers: []ocispec.Descriptor{}, Subject: &subDesc, Annotations: ann}
		refBytes, _ = json.Marshal(ref)
	}
	refDesc := content.NewDescriptorFromBytes(mediaType, refBytes)
	pushed := refDesc
	// the way the source happened to be populated: with or without the optional descriptor fields
	if verifrt.Bool() {
		pushed.ArtifactType = artifactType
		if !isIndex && artifactType == "" {
			pushed.ArtifactType = cfgType
		}
		pushed.Annotations = ann
		verifrt.Event("pushed descriptor carries artifactType/annotations")
	} else {
		verifrt.Event("pushed descriptor is plain")
	}
	must(src.Push(ctx, pushed, bytes.NewReader(refBytes)))

	// the manifest's artifact type per the image spec / the statement
	effective := artifactType
	if !isIndex && artifactType == "" {
		effective = cfgType
	}
	dst := memory.New()
	opts := ExtendedCopyGraphOptions{}
	byAnnotation := verifrt.Bool()
	re := c03FilterX
	if verifrt.Bool() {
		re = c03FilterOpt
	}
	var want bool
	if byAnnotation {
		opts.FilterAnnotation("k", re)
		want = hasAnn && re.MatchString(annValue)
	} else {
		opts.FilterArtifactType(re)
		want = re.MatchString(effective)
	}
	err := ExtendedCopyGraph(ctx, src, dst, subDesc, opts)
	verifrt.Assert(err == nil, "C03.filter.succeeds")
	if err != nil {
		return
	}
	got, _ := dst.Exists(ctx, refDesc)
	okSub, _ := dst.Exists(ctx, subDesc)
	verifrt.Assert(okSub, "C03.filter.own-graph")
	if byAnnotation {
		verifrt.Assert(got == want, "C03.filter.annotation-exact")
		verifrt.Reach("C03.filter.annotation")
	} else {
		verifrt.Assert(got == want, "C03.filter.artifacttype-exact")
		verifrt.Reach("C03.filter.artifacttype")
	}
}

func must(err error) {
	if err != nil {
		panic(err)
	}
}
