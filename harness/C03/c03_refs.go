//go:build verif

package oras

import (
	"bytes"
	"context"
	"fmt"

	"oras.land/oras-go/v2/content"
	"oras.land/oras-go/v2/content/memory"
	"oras.land/oras-go/v2/content/oci"
	"oras.land/oras-go/v2/internal/verifrt"
)

// VerifC03ExtCopyRefs: ExtendedCopy by reference. The start node (any node, blob or manifest) is
// named in the source by a tag or, on an OCI-layout source, by its digest; the destination
// reference is blank, a tag, or the node's digest string. On success the destination reference
// resolves to the given node ("ExtendedCopy tags the given node itself") and the node's upward
// closure is in the destination.
func VerifC03ExtCopyRefs() {
	ctx := context.Background()
	K := verifrt.Param("K", 3)
	nodes := symDAG(K)
	start := verifrt.Choice(K)
	srcRef := "v1"
	var src ReadOnlyGraphTarget
	if verifrt.Bool() {
		// OCI-layout source: manifests resolve by digest without a tag
		o, err := oci.New(verifrt.TempDir())
		if err != nil {
			panic(err)
		}
		for i := range nodes {
			if ok, _ := o.Exists(ctx, nodes[i].desc); !ok {
				if err := o.Push(ctx, nodes[i].desc, bytes.NewReader(nodes[i].bytes)); err != nil {
					panic(err)
				}
			}
		}
		if err := o.Tag(ctx, nodes[start].desc, "v1"); err != nil {
			panic(err)
		}
		if verifrt.Bool() {
			srcRef = string(nodes[start].desc.Digest)
		}
		src = o
	} else {
		m := newSource(nodes)
		if err := m.Tag(ctx, nodes[start].desc, "v1"); err != nil {
			panic(err)
		}
		src = m
	}
	dstRef := []string{"", "v2", string(nodes[start].desc.Digest)}[verifrt.Choice(3)]
	eff := dstRef
	if eff == "" {
		eff = srcRef
	}
	verifrt.Event(fmt.Sprintf("start=%d srcRef=%s dstRef=%s", start, c03Short(srcRef), c03Short(dstRef)))
	dst := memory.New()
	opts := DefaultExtendedCopyOptions
	opts.Concurrency = 1
	got, err := ExtendedCopy(ctx, src, srcRef, dst, dstRef, opts)
	verifrt.Assert(err == nil, "C03.extcopy-refs.succeeds")
	if err != nil {
		return
	}
	verifrt.Assert(got.Digest == nodes[start].desc.Digest, "C03.extcopy-refs.returns-node")
	d, rerr := dst.Resolve(ctx, eff)
	verifrt.Assert(rerr == nil, "C03.extcopy-refs.reference-resolves")
	if rerr == nil {
		verifrt.Assert(content.Equal(d, got), "C03.extcopy-refs.tags-the-given-node")
	}
	// the node's own graph and every ancestor's graph are present
	dist := ancestorDist(nodes, start)
	for i := range nodes {
		if dist[i] >= 0 {
			assertCopied(dst, nodes, i, "C03.extcopy-refs.closure")
		}
	}
	verifrt.Reach("C03.extcopy-refs.ok")
}

func c03Short(s string) string {
	if len(s) > 10 {
		return s[:10]
	}
	return s
}
