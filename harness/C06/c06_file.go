//go:build verif

package file

import (
	"bytes"
	"context"
	"encoding/json"
	"errors"
	"fmt"
	"io"
	"os"
	"path/filepath"
	"sort"

	"github.com/opencontainers/image-spec/specs-go"
	ocispec "github.com/opencontainers/image-spec/specs-go/v1"
	"oras.land/oras-go/v2/content"
	"oras.land/oras-go/v2/errdef"
	"oras.land/oras-go/v2/internal/verifrt"
)

type c06fNode struct {
	desc  ocispec.Descriptor
	data  []byte
	name  string
	links []int
}

// c06fUniverse: two named blobs, one unnamed blob, a manifest over them (unnamed), and — with
// dupname — a third name carrying the first blob's bytes.
func c06fUniverse() []c06fNode {
	mk := func(data []byte, name string) c06fNode {
		d := content.NewDescriptorFromBytes("application/octet-stream", data)
		if name != "" {
			d.Annotations = map[string]string{ocispec.AnnotationTitle: name}
		}
		return c06fNode{desc: d, data: data, name: name}
	}
	a := []byte{'A', 'x'}
	if verifrt.Param("symdata", 0) != 0 {
		a = []byte{'A', verifrt.Byte()}
	}
	nodes := []c06fNode{mk(a, "a.txt"), mk([]byte("B"), "sub/b.txt"), mk([]byte("{}"), "")}
	m := ocispec.Manifest{Versioned: specs.Versioned{SchemaVersion: 2}, MediaType: ocispec.MediaTypeImageManifest,
		Config: nodes[2].desc, Layers: []ocispec.Descriptor{nodes[0].desc, nodes[1].desc}}
	b, _ := json.Marshal(m)
	nodes = append(nodes, c06fNode{desc: content.NewDescriptorFromBytes(m.MediaType, b), data: b, links: []int{2, 0, 1}})
	if verifrt.Param("dupname", 0) != 0 {
		nodes = append(nodes, mk(a, "a2.txt"))
	}
	return nodes
}

// VerifC06FileHistory: every history of k operations on a file store answers like a content map
// with a tag map (named blobs are files in the working directory, unnamed content goes to the
// fallback storage): Fetch returns the pushed bytes, a second Push is refused (duplicate name /
// already exists) and changes nothing, Tag/Fetch of absent content report not-found, Resolve
// returns the latest tag, Predecessors is exact, and the named files hold the bytes.
func VerifC06FileHistory() {
	ctx := context.Background()
	k := verifrt.Param("k", 3)
	dir := verifrt.TempDir()
	s, err := New(dir)
	if err != nil {
		panic(err)
	}
	defer s.Close()
	nodes := c06fUniverse()
	stored := make([]bool, len(nodes))
	tags := map[string]int{}
	refs := []string{"t1", "t2"}
	check := func(i int, label string) {
		ok, err := s.Exists(ctx, nodes[i].desc)
		verifrt.Assert(err == nil && ok == stored[i], "C06.file.exists-matches-model"+label)
		rc, err := s.Fetch(ctx, nodes[i].desc)
		if stored[i] {
			verifrt.Assert(err == nil, "C06.file.fetch-present-succeeds"+label)
			if err == nil {
				b, rerr := io.ReadAll(rc)
				rc.Close()
				verifrt.Assert(rerr == nil && len(b) == len(nodes[i].data) && verifrt.BytesEq(b, nodes[i].data), "C06.file.fetch-returns-pushed-bytes"+label)
			}
			if nodes[i].name != "" {
				fb, ferr := os.ReadFile(filepath.Join(dir, filepath.FromSlash(nodes[i].name)))
				verifrt.Assert(ferr == nil && len(fb) == len(nodes[i].data) && verifrt.BytesEq(fb, nodes[i].data), "C06.file.named-file-holds-bytes"+label)
			}
		} else {
			verifrt.Assert(errors.Is(err, errdef.ErrNotFound), "C06.file.fetch-absent-notfound"+label)
			if err == nil {
				rc.Close()
			}
		}
	}
	for step := 0; step < k; step++ {
		i := verifrt.Choice(len(nodes))
		switch verifrt.Choice(6) {
		case 5:
			// a push whose bytes do not match the descriptor is refused and changes nothing
			verifrt.Event(fmt.Sprintf("PushBad(%d)", i))
			bad := append([]byte("!"), nodes[i].data...)
			err := s.Push(ctx, nodes[i].desc, bytes.NewReader(bad[:len(nodes[i].data)]))
			verifrt.Assert(err != nil, "C06.file.push-wrong-bytes-refused")
		case 0:
			verifrt.Event(fmt.Sprintf("Push(%d)", i))
			err := s.Push(ctx, nodes[i].desc, bytes.NewReader(nodes[i].data))
			if stored[i] {
				if nodes[i].name != "" {
					verifrt.Assert(errors.Is(err, ErrDuplicateName), "C06.file.push-existing-name-refused")
				} else {
					verifrt.Assert(errors.Is(err, errdef.ErrAlreadyExists), "C06.file.push-existing-refused")
				}
			} else {
				verifrt.Assert(err == nil, "C06.file.push-succeeds")
				if err == nil {
					stored[i] = true
					// documented behaviour (Store.ForceCAS): pushing a manifest restores the named
					// successors whose bytes the store already holds under another name
					for _, c := range nodes[i].links {
						if stored[c] || nodes[c].name == "" {
							continue
						}
						for j := range nodes {
							if stored[j] && nodes[j].desc.Digest == nodes[c].desc.Digest {
								stored[c] = true
							}
						}
					}
				}
			}
		case 1:
			verifrt.Event(fmt.Sprintf("Fetch/Exists(%d)", i))
			check(i, "")
		case 2:
			ref := refs[verifrt.Choice(2)]
			verifrt.Event(fmt.Sprintf("Tag(%d,%s)", i, ref))
			err := s.Tag(ctx, nodes[i].desc, ref)
			if stored[i] {
				verifrt.Assert(err == nil, "C06.file.tag-succeeds")
				if err == nil {
					tags[ref] = i
				}
			} else {
				verifrt.Assert(errors.Is(err, errdef.ErrNotFound), "C06.file.tag-absent-notfound")
			}
		case 3:
			ref := refs[verifrt.Choice(2)]
			d, err := s.Resolve(ctx, ref)
			if n, ok := tags[ref]; ok {
				verifrt.Assert(err == nil && content.Equal(d, nodes[n].desc), "C06.file.resolve-latest-tag")
			} else {
				verifrt.Assert(errors.Is(err, errdef.ErrNotFound), "C06.file.resolve-unknown-notfound")
			}
		case 4:
			ps, err := s.Predecessors(ctx, nodes[i].desc)
			verifrt.Assert(err == nil, "C07.file.predecessors-no-error")
			var got, want []string
			for _, p := range ps {
				got = append(got, string(p.Digest))
			}
			for j := range nodes {
				if !stored[j] {
					continue
				}
				named := false
				for _, c := range nodes[j].links {
					// graph nodes are identified by media type, digest and size (not by the title)
					if content.Equal(nodes[c].desc, nodes[i].desc) {
						named = true
					}
				}
				if named {
					want = append(want, string(nodes[j].desc.Digest))
				}
			}
			sort.Strings(got)
			sort.Strings(want)
			verifrt.Assert(fmt.Sprint(got) == fmt.Sprint(want), "C07.file.predecessors-exact")
		}
	}
	for i := range nodes {
		check(i, ".final")
	}
	verifrt.Reach("C06.file.end")
}
