//go:build verif

package auth

import (
	"bytes"
	"context"
	"errors"
	"fmt"
	"io"
	"net/http"
	"strings"
	"time"

	"oras.land/oras-go/v2/internal/verifrt"
	"oras.land/oras-go/v2/registry/remote/retry"
)

// recordingPeer plays a symbolic sequence of server behaviours and records the body it receives
// on every attempt.
type recordingPeer struct {
	script   []int // per attempt: 0 = 200, 1 = 401 Basic, 2 = 503, 3 = 429, 4 = transport error, 5 = 400, 6 = timeout (retryable error)
	attempt  int
	bodies   []string
	authSeen []string
	cancel   func()
	cancelAt int
}

var errTransport = errors.New("connection reset")

// timeoutErr is a net.Error whose Timeout() is true: the default predicate retries it.
type timeoutErr struct{}

func (timeoutErr) Error() string   { return "i/o timeout" }
func (timeoutErr) Timeout() bool   { return true }
func (timeoutErr) Temporary() bool { return true }

func (p *recordingPeer) RoundTrip(req *http.Request) (*http.Response, error) {
	body := ""
	if req.Body != nil && req.Body != http.NoBody {
		b, _ := io.ReadAll(req.Body)
		body = string(b)
	}
	p.bodies = append(p.bodies, body)
	p.authSeen = append(p.authSeen, req.Header.Get("Authorization"))
	i := p.attempt
	p.attempt++
	if p.cancel != nil && i == p.cancelAt {
		p.cancel() // the caller cancels while this attempt is being answered (i.e. before the pause ends)
	}
	kind := 0
	if i < len(p.script) {
		kind = p.script[i]
	}
	mk := func(code int) *http.Response {
		return &http.Response{StatusCode: code, Header: http.Header{}, Request: req, Body: io.NopCloser(strings.NewReader("")), ContentLength: 0}
	}
	switch kind {
	case 1:
		r := mk(http.StatusUnauthorized)
		r.Header.Set("Www-Authenticate", `Basic realm="r"`)
		return r, nil
	case 2:
		return mk(http.StatusServiceUnavailable), nil
	case 3:
		r := mk(http.StatusTooManyRequests)
		r.Header.Set("Retry-After", "1")
		return r, nil
	case 4:
		return nil, errTransport
	case 5:
		return mk(http.StatusBadRequest), nil
	case 6:
		return nil, timeoutErr{} // retryable transport error (the body has been consumed by now)
	}
	return mk(http.StatusOK), nil
}

type oneShot struct{ r io.Reader }

func (o *oneShot) Read(p []byte) (int, error) { return o.r.Read(p) }

// VerifC17Stack: auth client over the retrying transport over a recording peer.
func VerifC17Stack() {
	A := verifrt.Param("A", 3)
	peer := &recordingPeer{}
	for i := 0; i < A; i++ {
		peer.script = append(peer.script, verifrt.Choice(7))
	}
	maxRetry := verifrt.Choice(3)
	policy := &retry.GenericPolicy{Retryable: retry.DefaultPredicate, Backoff: func(int, *http.Response) time.Duration { return time.Millisecond },
		MinWait: time.Millisecond, MaxWait: time.Second, MaxRetry: maxRetry}
	tr := &retry.Transport{Base: peer, Policy: func() retry.Policy { return policy }}
	client := &Client{Client: &http.Client{Transport: tr},
		Credential: StaticCredential("r.io", Credential{Username: "u", Password: "p"})}
	ctx, cancel := context.WithCancel(context.Background())
	defer cancel()
	if verifrt.Bool() {
		peer.cancel = cancel
		peer.cancelAt = verifrt.Choice(A)
	}
	payload := "BODY"
	bodyKind := verifrt.Choice(3) // 0 none, 1 replayable, 2 one-shot
	var body io.Reader
	switch bodyKind {
	case 1:
		body = bytes.NewReader([]byte(payload))
	case 2:
		body = &oneShot{r: strings.NewReader(payload)}
	}
	req, err := http.NewRequestWithContext(ctx, http.MethodPut, "https://r.io/v2/x/manifests/t", body)
	if err != nil {
		panic(err)
	}
	verifrt.Event(fmt.Sprintf("script=%v maxRetry=%d body=%d cancelAt=%v", peer.script, maxRetry, bodyKind, peer.cancel != nil))
	resp, derr := client.Do(req)

	// every attempt carried the complete original body; a one-shot body is never re-sent
	for i, b := range peer.bodies {
		switch bodyKind {
		case 0:
			verifrt.Assert(b == "", "C17.stack.no-body-invented")
		case 1:
			verifrt.Assert(b == payload, "C17.stack.complete-body-on-every-attempt")
		case 2:
			if i == 0 {
				verifrt.Assert(b == payload, "C17.stack.complete-body-first-attempt")
			} else {
				verifrt.Assert(false, "C17.stack.one-shot-body-never-resent")
			}
		}
	}
	// attempts per send are bounded: at most two sends (one re-send after the 401) of MaxRetry+1 attempts
	verifrt.Assert(len(peer.bodies) <= 2*(maxRetry+1), "C17.stack.attempts-bounded")
	// attempt number within its send: a new send starts after a 401 was handed back to the auth client
	inSend := make([]int, len(peer.bodies))
	n := 0
	for i := range peer.bodies {
		inSend[i] = n
		n++
		if i < len(peer.script) && peer.script[i] == 1 {
			n = 0
		}
	}
	kindAt := func(i int) int {
		if i < len(peer.script) {
			return peer.script[i]
		}
		return 0
	}
	for i := range peer.bodies {
		verifrt.Assert(inSend[i] <= maxRetry, "C17.stack.at-most-maxretry-plus-one-attempts-per-send")
		// non-retryable answers are returned at once: nothing follows a 400 or a transport error
		if k := kindAt(i); k == 5 || k == 4 {
			verifrt.Assert(i == len(peer.bodies)-1, "C17.stack.non-retryable-returned-at-once")
		}
	}
	if peer.cancel != nil && peer.cancelAt < len(peer.bodies) {
		// cancelled while attempt cancelAt was answered: if a pause follows that answer (retryable
		// status, retries left, body can be rewound) the call ends with the context's error and no
		// further attempt is made
		k := kindAt(peer.cancelAt)
		if (k == 2 || k == 3 || k == 6) && inSend[peer.cancelAt] < maxRetry && bodyKind != 2 {
			verifrt.Assert(len(peer.bodies) == peer.cancelAt+1, "C17.stack.no-attempt-after-cancel")
			verifrt.Assert(errors.Is(derr, context.Canceled), "C17.stack.cancel-returns-context-error")
			verifrt.Reach("C17.stack.cancelled-in-pause")
		}
	}
	if derr == nil {
		resp.Body.Close()
		verifrt.Reach("C17.stack.answered")
	} else {
		verifrt.Reach("C17.stack.error")
	}
}
