//go:build verif

package auth

import (
	"bytes"
	"context"
	"fmt"
	"io"
	"net/http"
	"strings"
	"time"

	"oras.land/oras-go/v2/internal/verifrt"
	"oras.land/oras-go/v2/registry/remote/retry"
)

// bearerPeer plays a registry that demands, per request, a Bearer token covering a required
// scope, and its token service (anonymous token fetch). A token is the text "tok[" + the scope
// query values + "]"; the registry accepts a token that names the required scope. The peer
// records the body of every attempt that reaches the registry.
type bearerPeer struct {
	required string
	bodies   []string
	fetches  int
}

func (p *bearerPeer) RoundTrip(req *http.Request) (*http.Response, error) {
	mk := func(code int, body string) *http.Response {
		return &http.Response{StatusCode: code, Header: http.Header{}, Request: req, Body: io.NopCloser(strings.NewReader(body)), ContentLength: int64(len(body))}
	}
	if req.URL.Host == "auth.io" {
		p.fetches++
		scopes := strings.Join(req.URL.Query()["scope"], " ")
		return mk(http.StatusOK, `{"access_token":"tok[`+scopes+`]"}`), nil
	}
	body := ""
	if req.Body != nil && req.Body != http.NoBody {
		b, _ := io.ReadAll(req.Body)
		body = string(b)
	}
	p.bodies = append(p.bodies, body)
	if a := req.Header.Get("Authorization"); strings.HasPrefix(a, "Bearer tok[") && strings.Contains(a, p.required) {
		return mk(http.StatusCreated, ""), nil
	}
	r := mk(http.StatusUnauthorized, "")
	r.Header.Set("Www-Authenticate", `Bearer realm="https://auth.io/token",service="r.io",scope="`+p.required+`"`)
	return r, nil
}

// VerifC17BearerResend: a history of requests through one auth client with a shared token
// cache; per request the hinted scope, the scope the registry demands and the body kind are
// arbitrary. Whenever the registry sees a request again (after a challenge, from a cached
// token for the widened scope or from a fresh one) it receives the complete body, and a
// one-shot body is never sent twice.
func VerifC17BearerResend() {
	k := verifrt.Param("k", 3)
	peer := &bearerPeer{}
	policy := &retry.GenericPolicy{Retryable: retry.DefaultPredicate, Backoff: func(int, *http.Response) time.Duration { return time.Millisecond },
		MinWait: time.Millisecond, MaxWait: time.Second, MaxRetry: 1}
	tr := &retry.Transport{Base: peer, Policy: func() retry.Policy { return policy }}
	client := &Client{Client: &http.Client{Transport: tr}, Cache: NewCache()}
	scopes := []string{"repository:x:pull", "repository:x:pull,push"}
	payload := "BODY"
	for step := 0; step < k; step++ {
		ctx := context.Background()
		hint := verifrt.Choice(3)
		if hint > 0 {
			ctx = WithScopes(ctx, scopes[hint-1])
		}
		peer.required = scopes[verifrt.Choice(2)]
		bodyKind := verifrt.Choice(3)
		if step < k-1 && bodyKind == 2 {
			bodyKind = 1 // the earlier requests only prime the cache
		}
		var body io.Reader
		switch bodyKind {
		case 1:
			body = bytes.NewReader([]byte(payload))
		case 2:
			body = &oneShot{r: strings.NewReader(payload)}
		}
		req, err := http.NewRequestWithContext(ctx, http.MethodPut, "https://r.io/v2/x/manifests/t", body)
		if err != nil {
			panic(err)
		}
		peer.bodies = nil
		verifrt.Event(fmt.Sprintf("request %d: hint=%d required=%s body=%d", step, hint, peer.required, bodyKind))
		resp, derr := client.Do(req)
		for i, b := range peer.bodies {
			switch bodyKind {
			case 0:
				verifrt.Assert(b == "", "C17.bearer.no-body-invented")
			case 1:
				verifrt.Assert(b == payload, "C17.bearer.complete-body-on-every-attempt")
			case 2:
				verifrt.Assert(i == 0 && b == payload, "C17.bearer.one-shot-body-never-resent")
			}
		}
		verifrt.Assert(len(peer.bodies) <= 3, "C17.bearer.attempts-bounded")
		if bodyKind != 2 {
			verifrt.Assert(derr == nil && resp.StatusCode == http.StatusCreated, "C17.bearer.authorised-in-the-end")
		}
		if derr == nil {
			if len(peer.bodies) > 1 {
				verifrt.Reach("C17.bearer.resent")
			}
			resp.Body.Close()
		} else {
			verifrt.Reach("C17.bearer.stopped-with-error")
		}
	}
	verifrt.Reach("C17.bearer.end")
}
