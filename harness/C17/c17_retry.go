//go:build verif

package retry

import (
	"errors"
	"net/http"
	"time"

	"oras.land/oras-go/v2/internal/verifrt"
)

var errPred = errors.New("predicate error")

// VerifC17Policy: GenericPolicy.Retry returns -1 or a pause within [MinWait, MaxWait], for
// every attempt number, bound pair, predicate verdict and backoff value (all 64-bit symbolic).
func VerifC17Policy() {
	minW := time.Duration(verifrt.Int64())
	maxW := time.Duration(verifrt.Int64())
	verifrt.Assume(verifrt.And(minW >= 0, minW <= maxW))
	maxRetry := int(verifrt.Int64())
	attempt := int(verifrt.Int64())
	predOK := verifrt.SymBool()
	predErr := verifrt.SymBool()
	back := time.Duration(verifrt.Int64())
	calledBackoff := false
	p := &GenericPolicy{
		Retryable: func(resp *http.Response, err error) (bool, error) {
			if predErr {
				return predOK, errPred
			}
			return predOK, nil
		},
		Backoff: func(attempt int, resp *http.Response) time.Duration {
			calledBackoff = true
			return back
		},
		MinWait: minW, MaxWait: maxW, MaxRetry: maxRetry,
	}
	d, err := p.Retry(attempt, nil, nil)
	verifrt.Assert(verifrt.Or(d == -1, verifrt.And(d >= minW, d <= maxW)), "C17.policy.clamp")
	if attempt >= maxRetry {
		verifrt.Assert(verifrt.And(d == -1, err == nil), "C17.policy.maxretry")
		verifrt.Assert(!calledBackoff, "C17.policy.maxretry-no-backoff")
		verifrt.Reach("C17.policy.exhausted")
	} else if predErr {
		verifrt.Assert(verifrt.And(d == -1, err == errPred), "C17.policy.pred-error")
	} else if !predOK {
		verifrt.Assert(verifrt.And(d == -1, err == nil), "C17.policy.not-retryable")
		verifrt.Reach("C17.policy.notretry")
	} else {
		verifrt.Assert(verifrt.And(d >= minW, d <= maxW), "C17.policy.retry-in-bounds")
		verifrt.Assert(err == nil, "C17.policy.retry-no-error")
		verifrt.Reach("C17.policy.retry")
	}
}

// VerifC17Backoff: the exponential backoff behind a GenericPolicy never panics and the pause
// is within the policy's bounds for every attempt number and parameter choice.
func VerifC17Backoff() {
	base := time.Duration(verifrt.Int64())
	factor := verifrt.Float64()
	jitter := verifrt.Float64()
	verifrt.Assume(base > 0)
	verifrt.Assume(verifrt.And(factor >= 1, factor <= 1e6))
	verifrt.Assume(verifrt.And(jitter >= 0, jitter <= 1))
	attempt := int(verifrt.Int64())
	verifrt.Assume(verifrt.And(attempt >= 0, attempt < 1000))
	minW := time.Duration(verifrt.Int64())
	maxW := time.Duration(verifrt.Int64())
	verifrt.Assume(verifrt.And(minW >= 0, minW <= maxW))
	p := &GenericPolicy{
		Retryable: func(resp *http.Response, err error) (bool, error) { return true, nil },
		Backoff:   ExponentialBackoff(base, factor, jitter),
		MinWait:   minW, MaxWait: maxW, MaxRetry: 1000,
	}
	d, err := p.Retry(attempt, nil, nil)
	verifrt.Assert(verifrt.And(d >= minW, d <= maxW), "C17.backoff.in-bounds")
	verifrt.Assert(err == nil, "C17.backoff.no-error")
	verifrt.Reach("C17.backoff.end")
}

// VerifC17BackoffDefault: the same with the package's default backoff parameters.
func VerifC17BackoffDefault() {
	attempt := int(verifrt.Int64())
	verifrt.Assume(verifrt.And(attempt >= 0, attempt < 1000))
	p := &GenericPolicy{
		Retryable: func(resp *http.Response, err error) (bool, error) { return true, nil },
		Backoff:   DefaultBackoff,
		MinWait:   200 * time.Millisecond, MaxWait: 3 * time.Second, MaxRetry: 1000,
	}
	d, err := p.Retry(attempt, nil, nil)
	verifrt.Assert(verifrt.And(d >= 200*time.Millisecond, d <= 3*time.Second), "C17.backoff-default.in-bounds")
	verifrt.Assert(err == nil, "C17.backoff-default.no-error")
	verifrt.Reach("C17.backoff-default.end")
}
