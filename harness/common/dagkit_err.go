//go:build verif

package oras

import "oras.land/oras-go/v2/errdef"

func errAlreadyExists() error { return errdef.ErrAlreadyExists }
