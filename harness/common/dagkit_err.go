//go:build verif

package __PKG__

import "oras.land/oras-go/v2/errdef"

func errAlreadyExists() error { return errdef.ErrAlreadyExists }
