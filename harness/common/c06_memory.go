//go:build verif

package memory

import (
	"bytes"
	"context"
	"errors"
	"fmt"
	"sort"

	ocispec "github.com/opencontainers/image-spec/specs-go/v1"
	"oras.land/oras-go/v2/content"
	"oras.land/oras-go/v2/errdef"
	"oras.land/oras-go/v2/internal/verifrt"
)

var c06Refs = []string{"t1", "t2", ""}

type c06Model struct {
	stored []bool
	tags   map[string]int
}

func c06Key(d ocispec.Descriptor) string { return fmt.Sprintf("%s %s %d", d.MediaType, d.Digest, d.Size) }

func (m *c06Model) has(nodes []vnode, i int) bool {
	for j := range nodes {
		if m.stored[j] && nodeIndex(nodes, nodes[j].desc) == nodeIndex(nodes, nodes[i].desc) {
			return true
		}
	}
	return false
}

// c06Step performs one symbolic operation on the store and the model and compares the answers.
func c06Step(ctx context.Context, s *Store, nodes []vnode, m *c06Model, who string) {
	switch verifrt.ChoiceK(who, 6) {
	case 0: // Push (possibly with wrong bytes)
		i := verifrt.ChoiceK(who, len(nodes))
		data := nodes[i].bytes
		bad := verifrt.BoolK(who)
		if bad {
			data = append(append([]byte(nil), data...), 'x')
		}
		verifrt.Event(fmt.Sprintf("%s Push(node%d bad=%v)", who, i, bad))
		err := s.Push(ctx, nodes[i].desc, bytes.NewReader(data))
		switch {
		case m.has(nodes, i):
			verifrt.Assert(errors.Is(err, errdef.ErrAlreadyExists), "C06.memory.push-existing-refused")
		case bad:
			verifrt.Assert(err != nil, "C06.memory.bad-push-fails")
		default:
			verifrt.Assert(err == nil, "C06.memory.push-succeeds")
			if err == nil {
				m.stored[i] = true
			}
		}
	case 1: // Fetch
		i := verifrt.ChoiceK(who, len(nodes))
		b, err := content.FetchAll(ctx, s, nodes[i].desc)
		if m.has(nodes, i) {
			verifrt.Assert(err == nil && bytes.Equal(b, nodes[i].bytes), "C06.memory.fetch-returns-pushed-bytes")
		} else {
			verifrt.Assert(errors.Is(err, errdef.ErrNotFound), "C06.memory.fetch-absent-notfound")
		}
	case 2: // Exists
		i := verifrt.ChoiceK(who, len(nodes))
		ok, err := s.Exists(ctx, nodes[i].desc)
		verifrt.Assert(err == nil && ok == m.has(nodes, i), "C06.memory.exists-matches")
	case 3: // Tag
		i := verifrt.ChoiceK(who, len(nodes))
		ref := c06Refs[verifrt.ChoiceK(who, len(c06Refs))]
		verifrt.Event(fmt.Sprintf("%s Tag(node%d,%q)", who, i, ref))
		err := s.Tag(ctx, nodes[i].desc, ref)
		if m.has(nodes, i) {
			if ref == "" {
				// an empty reference: refused or accepted, but then Resolve("") must agree (checked below)
				if err == nil {
					m.tags[ref] = i
				}
			} else {
				verifrt.Assert(err == nil, "C06.memory.tag-succeeds")
				if err == nil {
					m.tags[ref] = i
				}
			}
		} else {
			verifrt.Assert(errors.Is(err, errdef.ErrNotFound), "C06.memory.tag-absent-notfound")
		}
	case 4: // Resolve
		ref := c06Refs[verifrt.ChoiceK(who, len(c06Refs))]
		d, err := s.Resolve(ctx, ref)
		if n, ok := m.tags[ref]; ok {
			verifrt.Assert(err == nil && c06Key(d) == c06Key(nodes[n].desc), "C06.memory.resolve-latest")
		} else {
			verifrt.Assert(err != nil, "C06.memory.resolve-unknown-fails")
		}
	case 5: // Predecessors
		j := verifrt.ChoiceK(who, len(nodes))
		ps, err := s.Predecessors(ctx, nodes[j].desc)
		verifrt.Assert(err == nil, "C06.memory.predecessors-no-error")
		var got, want []string
		for _, p := range ps {
			got = append(got, c06Key(p))
		}
		seen := map[string]bool{}
		for i := range nodes {
			if !m.stored[i] {
				continue
			}
			for _, c := range nodes[i].links {
				if nodeIndex(nodes, nodes[c].desc) == nodeIndex(nodes, nodes[j].desc) && !seen[c06Key(nodes[i].desc)] {
					seen[c06Key(nodes[i].desc)] = true
					want = append(want, c06Key(nodes[i].desc))
				}
			}
		}
		sort.Strings(got)
		sort.Strings(want)
		verifrt.Assert(fmt.Sprint(got) == fmt.Sprint(want), "C07.memory.predecessors-exact")
	}
}

// VerifC06MemoryHistory: every history of k operations on a memory store behaves like a
// content map plus a tag map.
func VerifC06MemoryHistory() {
	K := verifrt.Param("K", 2)
	k := verifrt.Param("k", 3)
	ctx := context.Background()
	nodes := symDAG(K)
	s := New()
	m := &c06Model{stored: make([]bool, K), tags: map[string]int{}}
	for step := 0; step < k; step++ {
		c06Step(ctx, s, nodes, m, "")
	}
	verifrt.Reach("C06.memory.end")
}

// VerifC06MemoryConcurrent: two goroutines push the same nodes (good and bad bytes); after they
// quiesce the store holds exactly the good content, and nothing fetched ever mismatched.
func VerifC06MemoryConcurrent() {
	K := verifrt.Param("K", 2)
	verifrt.Sched(verifrt.SchedAll)
	ctx := context.Background()
	nodes := symDAG(K)
	s := New()
	done := make(chan bool, 2)
	okPush := make([][]bool, 2)
	for g := 0; g < 2; g++ {
		okPush[g] = make([]bool, K)
		go func(g int) {
			who := fmt.Sprintf("g%d", g)
			for n := 0; n < verifrt.Param("ops", 2); n++ {
				i := verifrt.ChoiceK(who, K)
				data := nodes[i].bytes
				if verifrt.BoolK(who) {
					data = append(append([]byte(nil), data...), 'x')
				}
				r := &yieldReader{r: bytes.NewReader(data)}
				if err := s.Push(ctx, nodes[i].desc, r); err == nil {
					okPush[g][i] = true
					verifrt.Assert(len(data) == len(nodes[i].bytes), "C06.concurrent.bad-push-never-succeeds")
				}
				if b, err := content.FetchAll(ctx, s, nodes[i].desc); err == nil {
					verifrt.Assert(bytes.Equal(b, nodes[i].bytes), "C06.concurrent.fetch-matches-descriptor")
				}
			}
			done <- true
		}(g)
	}
	<-done
	<-done
	for i := range nodes {
		ok, _ := s.Exists(ctx, nodes[i].desc)
		pushed := false
		for g := 0; g < 2; g++ {
			for j := range nodes {
				if okPush[g][j] && nodeIndex(nodes, nodes[j].desc) == nodeIndex(nodes, nodes[i].desc) {
					pushed = true
				}
			}
		}
		verifrt.Assert(ok == pushed, "C06.concurrent.final-state-sequential")
		if ok {
			b, err := content.FetchAll(ctx, s, nodes[i].desc)
			verifrt.Assert(err == nil && bytes.Equal(b, nodes[i].bytes), "C06.concurrent.final-bytes")
		}
	}
	verifrt.Reach("C06.concurrent.end")
}

type yieldReader struct{ r *bytes.Reader }

func (y *yieldReader) Read(p []byte) (int, error) {
	verifrt.Yield()
	return y.r.Read(p)
}
