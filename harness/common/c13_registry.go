//go:build verif

package remote

import (
	"bytes"
	"context"
	"errors"
	"fmt"
	"io"
	"net/http"
	"strconv"
	"strings"

	"encoding/json"

	"github.com/opencontainers/go-digest"
	"github.com/opencontainers/image-spec/specs-go"
	ocispec "github.com/opencontainers/image-spec/specs-go/v1"
	"oras.land/oras-go/v2/content"
	"oras.land/oras-go/v2/errdef"
	"oras.land/oras-go/v2/internal/verifrt"
	"oras.land/oras-go/v2/registry"
)

// regModel: a small registry that follows the OCI distribution specification for blobs and
// manifests of one repository, and validates every request it receives against the request
// shapes the specification allows. Capability profile: digest header on/off, range support on/off.
type regModel struct {
	repo       string
	blobs      map[string][]byte // digest -> bytes
	manifests  map[string][]byte // digest -> bytes
	mediaTypes map[string]string // manifest digest -> media type
	tags       map[string]string // tag -> digest
	uploads    map[string]bool
	nUploads   int
	digestHdr  bool
	ranges     bool
	corrupt    int // which single-field corruption to apply to blob GET responses (0 = none)
	locQuery   bool // the upload Location carries session state in a query string the PUT must keep
	refAPI     bool // Referrers API supported
	yield      bool // yield inside every exchange so that cooperative schedules interleave exchanges
	failKind   int    // one injected failure: 1 = index GET by tag (500), 2 = index PUT by tag (403), 3 = DELETE of an index manifest (405)
	failFired  bool
	failedPut  []byte // body of the index PUT the failure hit (2), or of the last index PUT before the failing DELETE (3)
	failedOld  []byte // index the failed batch started from
	lastIdxPut []byte
	badRequest string
	log        []string
	// cross-repository mounting: the sibling repository "c/d" holds otherBlobs; with mountCap a
	// mount of a blob it holds answers 201, otherwise 202 with an upload session (the spec's fallback)
	otherBlobs   map[string][]byte
	mountCap     bool
	mountCorrupt int // 1 = the 201's Docker-Content-Digest names another blob, 2 = it is malformed
	nMounted     int
}

func newRegModel() *regModel {
	return &regModel{repo: "a/b", blobs: map[string][]byte{}, manifests: map[string][]byte{}, mediaTypes: map[string]string{},
		tags: map[string]string{}, uploads: map[string]bool{}}
}

func (m *regModel) reject(req *http.Request, why string) (*http.Response, error) {
	m.badRequest = req.Method + " " + req.URL.String() + ": " + why
	return m.status(req, http.StatusBadRequest, nil), nil
}

func (m *regModel) status(req *http.Request, code int, body []byte) *http.Response {
	resp := &http.Response{StatusCode: code, Header: http.Header{}, Request: req, ContentLength: int64(len(body))}
	resp.Body = io.NopCloser(bytes.NewReader(body))
	return resp
}

func (m *regModel) Do(req *http.Request) (*http.Response, error) {
	if m.yield {
		verifrt.Yield()
	}
	m.log = append(m.log, req.Method+" "+req.URL.Path)
	if req.URL.Scheme != "https" || req.URL.Host != "r.io" {
		return m.reject(req, "wrong scheme or host")
	}
	base := "/v2/" + m.repo + "/"
	if sib := "/v2/c/d/blobs/"; m.otherBlobs != nil && strings.HasPrefix(req.URL.Path, sib) {
		// the sibling repository serves its blobs (read-only here)
		dg := req.URL.Path[len(sib):]
		if req.Method != http.MethodGet || !validDigest(dg) || req.URL.RawQuery != "" {
			return m.reject(req, "sibling repository: only GET of a blob by digest is expected")
		}
		b, ok := m.otherBlobs[dg]
		if !ok {
			return m.status(req, http.StatusNotFound, []byte(`{"errors":[{"code":"BLOB_UNKNOWN"}]}`)), nil
		}
		resp := m.status(req, http.StatusOK, b)
		resp.Header.Set("Content-Type", "application/octet-stream")
		if m.digestHdr {
			resp.Header.Set("Docker-Content-Digest", dg)
		}
		return resp, nil
	}
	if !strings.HasPrefix(req.URL.Path, base) {
		return m.reject(req, "path outside the repository")
	}
	rest := req.URL.Path[len(base):]
	switch {
	case strings.HasPrefix(rest, "blobs/uploads/"):
		return m.upload(req, rest[len("blobs/uploads/"):])
	case strings.HasPrefix(rest, "blobs/"):
		return m.blob(req, rest[len("blobs/"):])
	case strings.HasPrefix(rest, "manifests/"):
		return m.manifest(req, rest[len("manifests/"):])
	case strings.HasPrefix(rest, "referrers/"):
		return m.referrers(req, rest[len("referrers/"):])
	}
	return m.reject(req, "unknown endpoint")
}

func validDigest(s string) bool { return digest.Digest(s).Validate() == nil }

func (m *regModel) blob(req *http.Request, ref string) (*http.Response, error) {
	if !validDigest(ref) || req.URL.RawQuery != "" {
		return m.reject(req, "blob reference must be a digest without query")
	}
	data, ok := m.blobs[ref]
	switch req.Method {
	case http.MethodGet, http.MethodHead:
		if !ok {
			return m.status(req, http.StatusNotFound, nil), nil
		}
		body := data
		code := http.StatusOK
		hdrRange := req.Header.Get("Range")
		if hdrRange != "" {
			if req.Method != http.MethodGet || !m.ranges {
				return m.reject(req, "unexpected Range header")
			}
			// bytes=<start>-
			if !strings.HasPrefix(hdrRange, "bytes=") || !strings.HasSuffix(hdrRange, "-") {
				return m.reject(req, "malformed Range header")
			}
			start, err := strconv.ParseInt(hdrRange[6:len(hdrRange)-1], 10, 64)
			if err != nil || start < 0 || start >= int64(len(data)) {
				return m.reject(req, "Range start outside the blob")
			}
			body = data[start:]
			code = http.StatusPartialContent
		}
		if req.Method == http.MethodHead {
			resp := m.status(req, code, nil)
			resp.ContentLength = int64(len(data))
			if m.digestHdr {
				resp.Header.Set("Docker-Content-Digest", ref)
			}
			return resp, nil
		}
		resp := m.status(req, code, body)
		if m.digestHdr {
			resp.Header.Set("Docker-Content-Digest", ref)
		}
		if m.ranges {
			resp.Header.Set("Accept-Ranges", "bytes")
		}
		switch m.corrupt {
		case 1: // wrong digest header
			resp.Header.Set("Docker-Content-Digest", string(digest.FromString("other")))
		case 2: // wrong Content-Length
			resp.ContentLength = int64(len(body)) + 1
		case 3: // shorter body than announced
			resp.Body = io.NopCloser(bytes.NewReader(body[:len(body)-1]))
		case 4: // different bytes of the same length
			b := append([]byte(nil), body...)
			b[0] ^= 1
			resp.Body = io.NopCloser(bytes.NewReader(b))
		}
		return resp, nil
	case http.MethodDelete:
		if !ok {
			return m.status(req, http.StatusNotFound, nil), nil
		}
		delete(m.blobs, ref)
		resp := m.status(req, http.StatusAccepted, nil)
		if m.digestHdr {
			resp.Header.Set("Docker-Content-Digest", ref)
		}
		return resp, nil
	}
	return m.reject(req, "method not allowed on a blob")
}

func (m *regModel) upload(req *http.Request, session string) (*http.Response, error) {
	switch req.Method {
	case http.MethodPost:
		if session != "" {
			return m.reject(req, "POST must go to blobs/uploads/")
		}
		if q := req.URL.Query(); q.Has("mount") || q.Has("from") {
			dg := q.Get("mount")
			if !validDigest(dg) {
				return m.reject(req, "mount without a valid digest")
			}
			if q.Has("from") && q.Get("from") != "c/d" {
				return m.reject(req, "mount from a repository that was not named")
			}
			for k := range q {
				if k != "mount" && k != "from" {
					return m.reject(req, "mount POST with an unexpected query parameter: "+k)
				}
			}
			if b, ok := m.otherBlobs[dg]; ok && m.mountCap {
				m.blobs[dg] = b
				m.nMounted++
				resp := m.status(req, http.StatusCreated, nil)
				resp.Header.Set("Location", "/v2/"+m.repo+"/blobs/"+dg)
				if m.digestHdr {
					switch m.mountCorrupt {
					case 1:
						resp.Header.Set("Docker-Content-Digest", string(digest.FromString("some other blob")))
					case 2:
						resp.Header.Set("Docker-Content-Digest", "sha256:zz")
					default:
						resp.Header.Set("Docker-Content-Digest", dg)
					}
				}
				return resp, nil
			}
			// fall through: 202 and an upload session
		} else if req.URL.RawQuery != "" {
			return m.reject(req, "upload POST with an unexpected query")
		}
		m.nUploads++
		id := "u" + strconv.Itoa(m.nUploads)
		m.uploads[id] = true
		resp := m.status(req, http.StatusAccepted, nil)
		loc := "/v2/" + m.repo + "/blobs/uploads/" + id
		if m.locQuery {
			loc += "?_state=s" + id
		}
		resp.Header.Set("Location", loc)
		return resp, nil
	case http.MethodPut:
		if !m.uploads[session] {
			return m.reject(req, "PUT to an unknown upload session")
		}
		dg := req.URL.Query().Get("digest")
		if !validDigest(dg) {
			return m.reject(req, "PUT without a valid digest parameter")
		}
		if m.locQuery && req.URL.Query().Get("_state") != "s"+session {
			return m.reject(req, "PUT does not use the upload Location as given (its query string is missing)")
		}
		for k := range req.URL.Query() {
			if k != "digest" && k != "_state" {
				return m.reject(req, "PUT carries a query parameter the Location did not have: "+k)
			}
		}
		if req.Header.Get("Content-Type") != "application/octet-stream" {
			return m.reject(req, "PUT without Content-Type application/octet-stream")
		}
		body, _ := io.ReadAll(req.Body)
		if int64(len(body)) != req.ContentLength {
			return m.reject(req, "body length differs from Content-Length")
		}
		delete(m.uploads, session)
		if string(digest.FromBytes(body)) != dg {
			return m.status(req, http.StatusBadRequest, []byte(`{"errors":[{"code":"DIGEST_INVALID"}]}`)), nil
		}
		m.blobs[dg] = body
		resp := m.status(req, http.StatusCreated, nil)
		resp.Header.Set("Location", "/v2/"+m.repo+"/blobs/"+dg)
		return resp, nil
	}
	return m.reject(req, "method not allowed on an upload")
}

func (m *regModel) manifest(req *http.Request, ref string) (*http.Response, error) {
	if req.URL.RawQuery != "" {
		return m.reject(req, "manifest request with a query")
	}
	isDigest := validDigest(ref)
	if !isDigest && !isTagShape(ref) {
		return m.reject(req, "manifest reference is neither a digest nor a tag")
	}
	dg := ref
	if !isDigest {
		dg = m.tags[ref]
	}
	data, ok := m.manifests[dg]
	if m.failKind != 0 && !m.failFired {
		switch {
		case m.failKind == 1 && req.Method == http.MethodGet && !isDigest && strings.HasPrefix(ref, "sha256-"):
			m.failFired = true
			return m.status(req, http.StatusInternalServerError, nil), nil
		case m.failKind == 2 && req.Method == http.MethodPut && !isDigest && strings.HasPrefix(ref, "sha256-"):
			m.failFired = true
			m.failedPut, _ = io.ReadAll(req.Body)
			m.failedOld = data
			return m.status(req, http.StatusForbidden, nil), nil
		case m.failKind == 3 && req.Method == http.MethodDelete && ok && m.mediaTypes[dg] == ocispec.MediaTypeImageIndex:
			m.failFired = true
			m.failedPut = m.lastIdxPut
			m.failedOld = data
			return m.status(req, http.StatusMethodNotAllowed, nil), nil
		}
	}
	switch req.Method {
	case http.MethodGet, http.MethodHead:
		if req.Header.Get("Accept") == "" {
			return m.reject(req, "manifest request without Accept")
		}
		if !ok {
			return m.status(req, http.StatusNotFound, nil), nil
		}
		var body []byte
		if req.Method == http.MethodGet {
			body = data
		}
		resp := m.status(req, http.StatusOK, body)
		resp.ContentLength = int64(len(data))
		resp.Header.Set("Content-Type", m.mediaTypes[dg])
		if m.digestHdr {
			resp.Header.Set("Docker-Content-Digest", dg)
		}
		return resp, nil
	case http.MethodPut:
		mt := req.Header.Get("Content-Type")
		if mt == "" {
			return m.reject(req, "manifest PUT without Content-Type")
		}
		body, _ := io.ReadAll(req.Body)
		d := string(digest.FromBytes(body))
		if isDigest && d != ref {
			return m.status(req, http.StatusBadRequest, []byte(`{"errors":[{"code":"DIGEST_INVALID"}]}`)), nil
		}
		m.manifests[d] = body
		m.mediaTypes[d] = mt
		if !isDigest {
			m.tags[ref] = d
			m.lastIdxPut = body
		}
		resp := m.status(req, http.StatusCreated, nil)
		if m.digestHdr {
			resp.Header.Set("Docker-Content-Digest", d)
		}
		if m.refAPI {
			var man ocispec.Manifest
			if json.Unmarshal(body, &man) == nil && man.Subject != nil {
				resp.Header.Set("OCI-Subject", string(man.Subject.Digest))
			}
		}
		return resp, nil
	case http.MethodDelete:
		if !isDigest {
			return m.reject(req, "manifest DELETE by tag")
		}
		if !ok {
			return m.status(req, http.StatusNotFound, nil), nil
		}
		delete(m.manifests, dg)
		for t, d := range m.tags {
			if d == dg {
				delete(m.tags, t)
			}
		}
		return m.status(req, http.StatusAccepted, nil), nil
	}
	return m.reject(req, "method not allowed on a manifest")
}

// referrers: the Referrers API (when supported): an index of the stored manifests whose subject is ref.
func (m *regModel) referrers(req *http.Request, ref string) (*http.Response, error) {
	if req.Method != http.MethodGet || !validDigest(ref) {
		return m.reject(req, "referrers request must be GET by digest")
	}
	if !m.refAPI {
		return m.status(req, http.StatusNotFound, nil), nil
	}
	var descs []ocispec.Descriptor
	var keys []string
	for d := range m.manifests {
		keys = append(keys, d)
	}
	sortStringsC13(keys)
	for _, d := range keys {
		var man ocispec.Manifest
		if json.Unmarshal(m.manifests[d], &man) != nil || man.Subject == nil || string(man.Subject.Digest) != ref {
			continue
		}
		at := man.ArtifactType
		if at == "" {
			at = man.Config.MediaType
		}
		descs = append(descs, ocispec.Descriptor{MediaType: m.mediaTypes[d], Digest: digest.Digest(d), Size: int64(len(m.manifests[d])), ArtifactType: at, Annotations: man.Annotations})
	}
	idx := ocispec.Index{Versioned: specs.Versioned{SchemaVersion: 2}, MediaType: ocispec.MediaTypeImageIndex, Manifests: descs}
	if idx.Manifests == nil {
		idx.Manifests = []ocispec.Descriptor{}
	}
	body, _ := json.Marshal(idx)
	resp := m.status(req, http.StatusOK, body)
	resp.Header.Set("Content-Type", ocispec.MediaTypeImageIndex)
	return resp, nil
}

func sortStringsC13(s []string) {
	for i := 1; i < len(s); i++ {
		for k := i; k > 0 && s[k] < s[k-1]; k-- {
			s[k], s[k-1] = s[k-1], s[k]
		}
	}
}

func isTagShape(s string) bool {
	if len(s) == 0 || len(s) > 128 {
		return false
	}
	for i := 0; i < len(s); i++ {
		c := s[i]
		ok := c >= 'a' && c <= 'z' || c >= 'A' && c <= 'Z' || c >= '0' && c <= '9' || c == '_' || (i > 0 && (c == '.' || c == '-'))
		if !ok {
			return false
		}
	}
	return true
}

// ---- harness ----

type c13Content struct {
	desc ocispec.Descriptor
	data []byte
}

func c13Universe() []c13Content {
	blob := []byte("blob-1")
	cfg := []byte("{}")
	man := []byte(`{"schemaVersion":2,"mediaType":"application/vnd.oci.image.manifest.v1+json","config":{"mediaType":"application/vnd.oci.empty.v1+json","digest":"sha256:44136fa355b3678a1146ad16f7e8649e94fb4fc21fe77e8310c060f61caaff8a","size":2},"layers":[]}`)
	return []c13Content{
		{content.NewDescriptorFromBytes("application/octet-stream", blob), blob},
		{content.NewDescriptorFromBytes("application/vnd.oci.empty.v1+json", cfg), cfg},
		{content.NewDescriptorFromBytes(ocispec.MediaTypeImageManifest, man), man},
	}
}

// VerifC13History: k Repository operations against the registry model.
func VerifC13History() {
	k := verifrt.Param("k", 2)
	ctx := context.Background()
	reg := newRegModel()
	reg.digestHdr = verifrt.Bool()
	reg.ranges = verifrt.Bool()
	reg.locQuery = verifrt.Bool()
	repo := &Repository{Reference: registry.Reference{Registry: "r.io", Repository: "a/b"}, Client: reg}
	uni := c13Universe()
	tags := []string{"v1", "v2"}
	verifrt.Event(fmt.Sprintf("profile digestHdr=%v ranges=%v", reg.digestHdr, reg.ranges))
	if verifrt.Param("pre", 0) != 0 && verifrt.Bool() {
		// start from a populated registry: all content present, the manifest tagged v1
		reg.blobs[string(uni[0].desc.Digest)] = uni[0].data
		reg.blobs[string(uni[1].desc.Digest)] = uni[1].data
		reg.manifests[string(uni[2].desc.Digest)] = uni[2].data
		reg.mediaTypes[string(uni[2].desc.Digest)] = uni[2].desc.MediaType
		reg.tags["v1"] = string(uni[2].desc.Digest)
		verifrt.Event("populated")
	}
	isMan := func(i int) bool { return i == 2 }
	have := func(i int) bool {
		if isMan(i) {
			_, ok := reg.manifests[string(uni[i].desc.Digest)]
			return ok
		}
		_, ok := reg.blobs[string(uni[i].desc.Digest)]
		return ok
	}
	for step := 0; step < k; step++ {
		i := verifrt.Choice(len(uni))
		c := uni[i]
		switch verifrt.Choice(7) {
		case 0: // Push
			before := have(i)
			err := repo.Push(ctx, c.desc, bytes.NewReader(c.data))
			verifrt.Event(fmt.Sprintf("Push(%d)", i))
			verifrt.Assert(err == nil, "C13.push.succeeds")
			verifrt.Assert(have(i), "C13.push.registry-has-content")
			_ = before
		case 1: // Fetch
			rc, err := repo.Fetch(ctx, c.desc)
			verifrt.Event(fmt.Sprintf("Fetch(%d)", i))
			if have(i) {
				verifrt.Assert(err == nil, "C13.fetch.succeeds")
				if err == nil {
					b, rerr := io.ReadAll(rc)
					rc.Close()
					verifrt.Assert(rerr == nil && bytes.Equal(b, c.data), "C13.fetch.bytes-as-pushed")
				}
			} else {
				verifrt.Assert(errors.Is(err, errdef.ErrNotFound), "C13.fetch.absent-notfound")
			}
		case 2: // Exists
			ok, err := repo.Exists(ctx, c.desc)
			verifrt.Assert(err == nil && ok == have(i), "C13.exists.reflects-registry")
		case 3: // Tag (manifests only)
			t := tags[verifrt.Choice(len(tags))]
			err := repo.Tag(ctx, uni[2].desc, t)
			verifrt.Event("Tag(" + t + ")")
			if have(2) {
				verifrt.Assert(err == nil && reg.tags[t] == string(uni[2].desc.Digest), "C13.tag.reflects-registry")
			} else {
				verifrt.Assert(err != nil, "C13.tag.absent-fails")
			}
		case 4: // Resolve by tag
			t := tags[verifrt.Choice(len(tags))]
			d, err := repo.Resolve(ctx, t)
			if dg, ok := reg.tags[t]; ok {
				verifrt.Assert(err == nil && string(d.Digest) == dg && d.Size == int64(len(reg.manifests[dg])) && d.MediaType == reg.mediaTypes[dg], "C13.resolve.tag")
			} else {
				verifrt.Assert(errors.Is(err, errdef.ErrNotFound), "C13.resolve.unknown-tag-notfound")
			}
		case 5: // Delete
			before := have(i)
			err := repo.Delete(ctx, c.desc)
			verifrt.Event(fmt.Sprintf("Delete(%d)", i))
			if before {
				verifrt.Assert(err == nil && !have(i), "C13.delete.reflects-registry")
			} else {
				verifrt.Assert(errors.Is(err, errdef.ErrNotFound), "C13.delete.absent-notfound")
			}
		case 6: // Resolve a blob by digest through the blob store
			d, err := repo.Blobs().Resolve(ctx, string(uni[0].desc.Digest))
			if have(0) {
				verifrt.Assert(err == nil && d.Digest == uni[0].desc.Digest && d.Size == uni[0].desc.Size, "C13.resolve.blob")
			} else {
				verifrt.Assert(errors.Is(err, errdef.ErrNotFound), "C13.resolve.blob-notfound")
			}
		}
		verifrt.Assert(reg.badRequest == "", "C13.request-allowed-by-spec")
	}
	verifrt.Reach("C13.history.end")
}

// VerifC13Corrupt: one field of an otherwise valid blob response is corrupted: the call fails
// or returns data consistent with the request — never the inconsistent body.
func VerifC13Corrupt() {
	ctx := context.Background()
	reg := newRegModel()
	reg.digestHdr = verifrt.Bool()
	reg.ranges = verifrt.Bool()
	repo := &Repository{Reference: registry.Reference{Registry: "r.io", Repository: "a/b"}, Client: reg}
	c := c13Universe()[0]
	reg.blobs[string(c.desc.Digest)] = c.data
	reg.corrupt = 1 + verifrt.Choice(4)
	if reg.corrupt == 1 && !reg.digestHdr {
		return
	}
	rc, err := repo.Fetch(ctx, c.desc)
	var b []byte
	var rerr error
	if err == nil {
		b, rerr = content.ReadAll(rc, c.desc)
		rc.Close()
	}
	verifrt.Event(fmt.Sprintf("corrupt=%d", reg.corrupt))
	if err == nil && rerr == nil {
		verifrt.Assert(bytes.Equal(b, c.data), "C13.corrupt.never-inconsistent-data")
	}
	if reg.corrupt <= 2 {
		verifrt.Assert(err != nil, "C13.corrupt.header-contradiction-fails")
	}
	verifrt.Reach("C13.corrupt.end")
}
