//go:build verif

package __PKG__

import (
	"bytes"
	"fmt"
	"context"
	"encoding/json"
	"errors"
	"io"

	"github.com/opencontainers/go-digest"
	"github.com/opencontainers/image-spec/specs-go"
	ocispec "github.com/opencontainers/image-spec/specs-go/v1"
	"oras.land/oras-go/v2/content"
	"oras.land/oras-go/v2/internal/spec"
	"oras.land/oras-go/v2/internal/verifrt"
)

// ---- symbolic Merkle DAG generator (ground truth = the generator's own edge list) ----

const (
	kindBlob = iota
	kindManifest
	kindIndex
	kindArtifact
	kindDockerManifest
	kindDockerList
)

const foreignLayerType = "application/vnd.oci.image.layer.nondistributable.v1.tar"

type vnode struct {
	kind    int
	desc    ocispec.Descriptor
	bytes   []byte
	links   []int // every child the document names (config, layers, blobs, manifests, subject), with repeats
	foreign []int // children named only through a foreign (non-distributable) layer entry
	subject int   // node named as subject, or -1
	succ    []int // distinct children that must be copied
}

func manifestKinds() int { return 2 + verifrt.Param("kinds", 1) } // blob + this many manifest kinds

// symDAG builds K nodes bottom-up. Node 0 is a blob; node i links only to nodes < i.
// Blob contents are one symbolic byte each, so two blobs may or may not be equal.
func symDAG(K int) []vnode {
	nodes := make([]vnode, 0, K)
	for i := 0; i < K; i++ {
		var n vnode
		n.subject = -1
		kind := kindBlob
		if i > 0 {
			if verifrt.Param("force", 0) != 0 {
				kind = kindManifest // fixed shape: blobs below, manifests above
				if i < verifrt.Param("force", 0) {
					kind = kindBlob
				}
			} else {
				kind = verifrt.Choice(manifestKinds())
			}
		}
		n.kind = kind
		if kind == kindBlob {
			if verifrt.Param("symbytes", 0) != 0 {
				// symbolic content: equality of blobs is decided by the solver through the hash model
				n.bytes = []byte{'b', verifrt.Byte()}
			} else {
				// concrete content: either fresh or equal to an earlier blob's bytes
				n.bytes = []byte{'b', byte('0' + i)}
				var blobs []int
				for j := 0; j < i; j++ {
					if nodes[j].kind == kindBlob {
						blobs = append(blobs, j)
					}
				}
				if len(blobs) > 0 && verifrt.Param("dup", 1) != 0 {
					if c := verifrt.Choice(len(blobs) + 1); c > 0 {
						n.bytes = append([]byte(nil), nodes[blobs[c-1]].bytes...)
					}
				}
			}
			mt := "application/vnd.oci.image.layer.v1.tar"
			if i > 0 && verifrt.Param("dup", 1) != 0 && verifrt.Bool() {
				mt = "application/octet-stream" // same bytes may appear under two media types
			}
			n.desc = content.NewDescriptorFromBytes(mt, n.bytes)
			nodes = append(nodes, n)
			continue
		}
		// choose children among lower nodes
		refchain := verifrt.Param("refchain", 0) != 0 // referrer family: config = node 0, no layers, subject forced for i >= 2
		pick := func() []int {
			var r []int
			if refchain {
				return r
			}
			for j := 0; j < i; j++ {
				if verifrt.Bool() {
					r = append(r, j)
				}
			}
			return r
		}
		var subject *ocispec.Descriptor
		// (the Docker schema 2 formats have no subject field: content.Successors rightly ignores one)
		if kind != kindDockerManifest && kind != kindDockerList && ((refchain && i >= 2) || (!refchain && verifrt.Bool())) {
			// subject: any lower manifest-kind node
			var cands []int
			for j := 0; j < i; j++ {
				if nodes[j].kind != kindBlob {
					cands = append(cands, j)
				}
			}
			if len(cands) > 0 {
				j := cands[verifrt.Choice(len(cands))]
				d := nodes[j].desc
				subject = &d
				n.subject = j
				n.links = append(n.links, j)
			}
		}
		switch kind {
		case kindManifest, kindDockerManifest:
			cfg := 0
			if !refchain {
				cfg = verifrt.Choice(i)
			}
			n.links = append(n.links, cfg)
			m := ocispec.Manifest{Versioned: specs.Versioned{SchemaVersion: 2}, Config: nodes[cfg].desc, Subject: subject}
			if verifrt.Param("distinct", 1) != 0 {
				m.Annotations = map[string]string{"verif.node": fmt.Sprint(i)} // otherwise equal documents are one object
			}
			m.MediaType = ocispec.MediaTypeImageManifest
			if kind == kindDockerManifest {
				m.MediaType = "application/vnd.docker.distribution.manifest.v2+json"
			}
			m.Layers = []ocispec.Descriptor{}
			simple := verifrt.Param("simple", 0) != 0 // no foreign layers, no repeated layers
			for _, j := range pick() {
				d := nodes[j].desc
				if !simple && verifrt.Bool() {
					d.MediaType = foreignLayerType
					n.foreign = append(n.foreign, j)
				} else {
					n.links = append(n.links, j)
					if !simple && verifrt.Bool() { // the same layer listed twice
						m.Layers = append(m.Layers, d)
						n.links = append(n.links, j)
					}
				}
				m.Layers = append(m.Layers, d)
			}
			b, err := json.Marshal(m)
			if err != nil {
				panic(err)
			}
			n.bytes = b
			n.desc = content.NewDescriptorFromBytes(m.MediaType, b)
		case kindArtifact:
			a := spec.Artifact{MediaType: spec.MediaTypeArtifactManifest, ArtifactType: "application/vnd.verif.artifact", Subject: subject}
			if verifrt.Param("distinct", 1) != 0 {
				a.Annotations = map[string]string{"verif.node": fmt.Sprint(i)}
			}
			a.Blobs = []ocispec.Descriptor{}
			for _, j := range pick() {
				a.Blobs = append(a.Blobs, nodes[j].desc)
				n.links = append(n.links, j)
			}
			b, err := json.Marshal(a)
			if err != nil {
				panic(err)
			}
			n.bytes = b
			n.desc = content.NewDescriptorFromBytes(a.MediaType, b)
		case kindIndex, kindDockerList:
			idx := ocispec.Index{Versioned: specs.Versioned{SchemaVersion: 2}, Subject: subject}
			if verifrt.Param("distinct", 1) != 0 {
				idx.Annotations = map[string]string{"verif.node": fmt.Sprint(i)}
			}
			idx.MediaType = ocispec.MediaTypeImageIndex
			if kind == kindDockerList {
				idx.MediaType = "application/vnd.docker.distribution.manifest.list.v2+json"
			}
			idx.Manifests = []ocispec.Descriptor{}
			for _, j := range pick() {
				idx.Manifests = append(idx.Manifests, nodes[j].desc)
				n.links = append(n.links, j)
			}
			b, err := json.Marshal(idx)
			if err != nil {
				panic(err)
			}
			n.bytes = b
			n.desc = content.NewDescriptorFromBytes(idx.MediaType, b)
		}
		nodes = append(nodes, n)
	}
	for i := range nodes {
		verifrt.Event(fmt.Sprintf("node%d kind=%d mt=%s links=%v foreign=%v subject=%v bytes=%q", i, nodes[i].kind, nodes[i].desc.MediaType, nodes[i].links, nodes[i].foreign, nodes[i].kind != kindBlob && bytes.Contains(nodes[i].bytes, []byte("subject")), string(nodes[i].bytes[:min(len(nodes[i].bytes), 4)])))
	}
	// distinct non-foreign children
	for i := range nodes {
		seen := map[int]bool{}
		for _, j := range nodes[i].links {
			if !seen[j] {
				seen[j] = true
				nodes[i].succ = append(nodes[i].succ, j)
			}
		}
	}
	return nodes
}

// sameContent: do two generated nodes denote the same content-addressed object?
func sameDigest(a, b ocispec.Descriptor) bool {
	return verifrt.StrEq(string(a.Digest), string(b.Digest))
}

// nodeIndex finds the first generated node that is the same content-addressed object as d:
// same media type and digest (the stores key content by media type, digest and size, so the
// same bytes under two media types are two objects).
func nodeIndex(nodes []vnode, d ocispec.Descriptor) int {
	for i := range nodes {
		if len(nodes[i].desc.Digest) == len(d.Digest) && nodes[i].desc.MediaType == d.MediaType && sameDigest(nodes[i].desc, d) {
			return i
		}
	}
	return -1
}

// reachable returns the set of nodes reachable from root through non-foreign links.
func reachable(nodes []vnode, root int) []bool {
	r := make([]bool, len(nodes))
	var walk func(i int)
	walk = func(i int) {
		if r[i] {
			return
		}
		r[i] = true
		for _, j := range nodes[i].succ {
			walk(j)
		}
	}
	walk(root)
	return r
}

// ---- instrumented destination ----

type recStore struct {
	inner     content.Storage
	nodes     []vnode
	pushes    []int // per node: completed pushes
	fetches   []int
	inflight  int
	maxFlight int
	yield     bool
	faultPlan *faultPlan
	trace     []string
	hook      func()
}

// faultPlan injects at most max errors; each operation asks whether to fail.
type faultPlan struct {
	max   int
	fired int
}

var errInjected = errors.New("injected fault")

func (f *faultPlan) fail() bool {
	if f == nil || f.fired >= f.max {
		return false
	}
	if verifrt.Bool() {
		f.fired++
		return true
	}
	return false
}

func (s *recStore) enter() {
	s.inflight++
	if s.inflight > s.maxFlight {
		s.maxFlight = s.inflight
	}
	if s.hook != nil {
		s.hook()
	}
	if s.yield {
		verifrt.Yield()
	}
}

func (s *recStore) leave() { s.inflight-- }

func (s *recStore) Fetch(ctx context.Context, target ocispec.Descriptor) (io.ReadCloser, error) {
	s.enter()
	defer s.leave()
	if s.faultPlan.fail() {
		return nil, errInjected
	}
	if i := nodeIndex(s.nodes, target); i >= 0 {
		s.fetches[i]++
	}
	return s.inner.Fetch(ctx, target)
}

func (s *recStore) Exists(ctx context.Context, target ocispec.Descriptor) (bool, error) {
	s.enter()
	defer s.leave()
	if s.faultPlan.fail() {
		return false, errInjected
	}
	return s.inner.Exists(ctx, target)
}

func (s *recStore) Push(ctx context.Context, expected ocispec.Descriptor, r io.Reader) error {
	s.enter()
	defer s.leave()
	if s.faultPlan.fail() {
		return errInjected // fault before the effect
	}
	err := s.inner.Push(ctx, expected, r)
	if err != nil {
		return err
	}
	i := nodeIndex(s.nodes, expected)
	if i >= 0 {
		s.pushes[i]++
		// C02: at the moment a push completes every successor is already present
		for _, j := range s.nodes[i].succ {
			ok, _ := s.inner.Exists(ctx, s.nodes[j].desc)
			verifrt.Assert(ok, "C02.closed.at-push")
		}
	}
	if s.faultPlan.fail() {
		return errInjected // fault after the effect
	}
	return nil
}

func newRecStore(inner content.Storage, nodes []vnode) *recStore {
	return &recStore{inner: inner, nodes: nodes, pushes: make([]int, len(nodes)), fetches: make([]int, len(nodes))}
}

// prepopulate pushes an arbitrary link-closed subset of nodes into st.
func prepopulate(st content.Storage, nodes []vnode) []bool {
	pre := make([]bool, len(nodes))
	for i := range nodes {
		if verifrt.Param("nopre", 0) == 0 && verifrt.Bool() {
			ok := true
			for _, j := range nodes[i].succ {
				if !pre[j] {
					ok = false
				}
			}
			verifrt.Assume(ok) // the destination's initial content is closed under links
			pre[i] = true
			err := st.Push(context.Background(), nodes[i].desc, bytes.NewReader(nodes[i].bytes))
			if err != nil && !errors.Is(err, errAlreadyExists()) {
				panic(err)
			}
		}
	}
	return pre
}

// assertCopied: every node reachable from root is in st with identical bytes.
func assertCopied(st content.ReadOnlyStorage, nodes []vnode, root int, label string) {
	r := reachable(nodes, root)
	for i := range nodes {
		if !r[i] {
			continue
		}
		ok, err := st.Exists(context.Background(), nodes[i].desc)
		verifrt.Assert(err == nil && ok, label+".exists")
		if err == nil && ok {
			got, err := content.FetchAll(context.Background(), st, nodes[i].desc)
			verifrt.Assert(err == nil, label+".fetch")
			if err == nil {
				verifrt.Assert(len(got) == len(nodes[i].bytes) && verifrt.BytesEq(got, nodes[i].bytes), label+".bytes")
			}
		}
	}
}

var _ = digest.FromBytes
