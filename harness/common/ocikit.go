//go:build verif

package oci

import (
	"bytes"
	"context"
	"encoding/json"
	"errors"
	"fmt"
	"os"
	"path/filepath"
	"sort"

	"github.com/opencontainers/go-digest"
	ocispec "github.com/opencontainers/image-spec/specs-go/v1"
	"oras.land/oras-go/v2/content"
	"oras.land/oras-go/v2/errdef"
	"oras.land/oras-go/v2/internal/verifrt"
)

// ---- reference model of the store: which nodes are stored, which tags exist ----

type refModel struct {
	stored []bool
	tags   map[string]int // reference -> node
	ann    []map[string]string // per node: annotation map carried by the descriptor handed to Tag (nil: none)
}

// tagDesc is the descriptor the history hands to Tag for node i: with param annot=1 it may carry
// an annotation map, and every Tag of that node passes the same map value (as a caller re-using
// one descriptor variable does).
func (m *refModel) tagDesc(nodes []vnode, i int) ocispec.Descriptor {
	d := nodes[i].desc
	if m.ann != nil && m.ann[i] != nil {
		d.Annotations = m.ann[i]
	}
	return d
}

var ociRefs = []string{"t1", "t2"}

// op kinds
const (
	opPush = iota
	opTag
	opUntag
	opDelete
	opGC
	opSave
	numOps
)

// applyHistory runs k symbolic operations on the store and on the reference model.
// It returns false when an operation returned an unexpected error class.
func applyHistory(ctx context.Context, s *Store, nodes []vnode, m *refModel, k int, allowGC, allowDelete bool) {
	if verifrt.Param("annot", 0) != 0 && verifrt.Bool() {
		m.ann = make([]map[string]string, len(nodes))
		for i := range nodes {
			m.ann[i] = map[string]string{"com.example.note": fmt.Sprintf("n%d", i)}
		}
		verifrt.Event("annotated tag descriptors")
	}
	for step := 0; step < k; step++ {
		var kinds []int
		kinds = append(kinds, opPush, opTag, opUntag)
		if allowDelete {
			kinds = append(kinds, opDelete)
		}
		if allowGC {
			kinds = append(kinds, opGC)
		}
		if !s.AutoSaveIndex {
			kinds = append(kinds, opSave)
		}
		switch kinds[verifrt.Choice(len(kinds))] {
		case opPush:
			i := verifrt.Choice(len(nodes))
			verifrt.Event(fmt.Sprintf("Push(node%d)", i))
			err := s.Push(ctx, nodes[i].desc, bytes.NewReader(nodes[i].bytes))
			already := false
			for j := range nodes {
				if m.stored[j] && nodeIndex(nodes, nodes[j].desc) == nodeIndex(nodes, nodes[i].desc) {
					already = true
				}
			}
			// the layout keys blobs by digest only: the same bytes under another media type are "already there"
			for j := range nodes {
				if m.stored[j] && nodes[j].desc.Digest == nodes[i].desc.Digest {
					already = true
				}
			}
			if already {
				verifrt.Assert(errors.Is(err, errdef.ErrAlreadyExists), "C06.oci.push-existing-refused")
			} else {
				verifrt.Assert(err == nil, "C06.oci.push-succeeds")
				if err == nil {
					m.stored[i] = true
				}
			}
		case opTag:
			i := verifrt.Choice(len(nodes))
			ref := ociRefs[verifrt.Choice(len(ociRefs))]
			verifrt.Event(fmt.Sprintf("Tag(node%d,%s)", i, ref))
			err := s.Tag(ctx, m.tagDesc(nodes, i), ref)
			present := false
			for j := range nodes {
				if m.stored[j] && nodes[j].desc.Digest == nodes[i].desc.Digest {
					present = true
				}
			}
			if present {
				verifrt.Assert(err == nil, "C06.oci.tag-succeeds")
				if err == nil {
					m.tags[ref] = i
				}
			} else {
				verifrt.Assert(errors.Is(err, errdef.ErrNotFound), "C06.oci.tag-absent-notfound")
			}
		case opUntag:
			ref := ociRefs[verifrt.Choice(len(ociRefs))]
			verifrt.Event(fmt.Sprintf("Untag(%s)", ref))
			err := s.Untag(ctx, ref)
			if _, ok := m.tags[ref]; ok {
				verifrt.Assert(err == nil, "C06.oci.untag-succeeds")
				if err == nil {
					delete(m.tags, ref)
				}
			} else {
				verifrt.Assert(errors.Is(err, errdef.ErrNotFound), "C06.oci.untag-absent-notfound")
			}
		case opSave:
			verifrt.Event("SaveIndex")
			verifrt.Assert(s.SaveIndex() == nil, "C08.saveindex-succeeds")
		case opDelete:
			i := verifrt.Choice(len(nodes))
			verifrt.Event(fmt.Sprintf("Delete(node%d)", i))
			applyDelete(ctx, s, nodes, m, i)
		case opGC:
			verifrt.Event("GC")
			applyGC(ctx, s, nodes, m)
		}
	}
}

// sameBlob: the OCI layout stores content by digest.
func sameBlob(a, b ocispec.Descriptor) bool { return a.Digest == b.Digest }

func storedIdx(nodes []vnode, m *refModel, i int) bool {
	for j := range nodes {
		if m.stored[j] && sameBlob(nodes[j].desc, nodes[i].desc) {
			return true
		}
	}
	return false
}

// ---- observations ----

type observation struct {
	tags    []string
	tagDesc map[string]string // ref -> "mediatype digest size"
	tagFull []string          // "ref -> descriptor with annotations except the reference name"
	exists  []bool
	fetchOK []bool
	byDig   []string // Resolve(digest) -> "mediatype digest size" or "notfound"/"err"
	preds   [][]string
}

func plainKey(d ocispec.Descriptor) string {
	return fmt.Sprintf("%s %s %d", d.MediaType, d.Digest, d.Size)
}

// tagKey: what Resolve(tag) must preserve: the descriptor up to the reference-name annotation.
func tagKey(d ocispec.Descriptor) string {
	var ks []string
	for k, v := range d.Annotations {
		if k != ocispec.AnnotationRefName {
			ks = append(ks, k+"="+v)
		}
	}
	sortStrings(ks)
	return plainKey(d) + " " + fmt.Sprint(ks)
}

func observe(ctx context.Context, s interface {
	content.ReadOnlyGraphStorage
	Resolve(ctx context.Context, reference string) (ocispec.Descriptor, error)
	Tags(ctx context.Context, last string, fn func(tags []string) error) error
}, nodes []vnode) observation {
	var o observation
	s.Tags(ctx, "", func(tags []string) error {
		o.tags = append(o.tags, tags...)
		return nil
	})
	o.tagDesc = map[string]string{}
	for _, t := range o.tags {
		d, err := s.Resolve(ctx, t)
		if err == nil {
			o.tagDesc[t] = plainKey(d)
			o.tagFull = append(o.tagFull, t+" -> "+tagKey(d))
		} else {
			o.tagDesc[t] = "error"
		}
	}
	for i := range nodes {
		ok, _ := s.Exists(ctx, nodes[i].desc)
		o.exists = append(o.exists, ok)
		b, err := content.FetchAll(ctx, s, nodes[i].desc)
		o.fetchOK = append(o.fetchOK, err == nil && bytes.Equal(b, nodes[i].bytes))
		d, err := s.Resolve(ctx, string(nodes[i].desc.Digest))
		if err == nil {
			o.byDig = append(o.byDig, plainKey(d))
		} else if errors.Is(err, errdef.ErrNotFound) {
			o.byDig = append(o.byDig, "notfound")
		} else {
			o.byDig = append(o.byDig, "error")
		}
		ps, _ := s.Predecessors(ctx, nodes[i].desc)
		var keys []string
		for _, p := range ps {
			keys = append(keys, plainKey(p))
		}
		sort.Strings(keys)
		o.preds = append(o.preds, keys)
	}
	return o
}

func strsEqual(a, b []string) bool {
	if len(a) != len(b) {
		return false
	}
	for i := range a {
		if a[i] != b[i] {
			return false
		}
	}
	return true
}

func assertSameObservation(a, b observation, label string) {
	verifrt.Assert(strsEqual(a.tags, b.tags), label+".tags")
	for _, t := range a.tags {
		verifrt.Assert(a.tagDesc[t] == b.tagDesc[t], label+".tag-descriptor")
	}
	verifrt.Assert(strsEqual(a.tagFull, b.tagFull), label+".tag-descriptor-annotations")
	for i := range a.exists {
		verifrt.Assert(a.exists[i] == b.exists[i], label+".exists")
		verifrt.Assert(a.fetchOK[i] == b.fetchOK[i], label+".fetch")
		verifrt.Assert(a.byDig[i] == b.byDig[i], label+".resolve-by-digest")
		verifrt.Assert(strsEqual(a.preds[i], b.preds[i]), label+".predecessors")
	}
}

// assertValidLayout walks the directory: oci-layout and index.json decode, every blob file is
// named by the digest of its bytes, every index entry with a reference name points to an
// existing blob of the recorded size.
func assertValidLayout(root string, label string) {
	lb, err := os.ReadFile(filepath.Join(root, ocispec.ImageLayoutFile))
	verifrt.Assert(err == nil, label+".oci-layout-readable")
	if err == nil {
		var layout ocispec.ImageLayout
		verifrt.Assert(json.Unmarshal(lb, &layout) == nil && layout.Version == ocispec.ImageLayoutVersion, label+".oci-layout-parses")
	}
	ib, err := os.ReadFile(filepath.Join(root, ocispec.ImageIndexFile))
	verifrt.Assert(err == nil, label+".index-readable")
	var index ocispec.Index
	if err == nil {
		perr := json.Unmarshal(ib, &index)
		verifrt.Assert(perr == nil, label+".index-parses")
		if perr != nil {
			return
		}
	}
	algDir := filepath.Join(root, ocispec.ImageBlobsDir, "sha256")
	ents, _ := os.ReadDir(algDir)
	for _, e := range ents {
		b, err := os.ReadFile(filepath.Join(algDir, e.Name()))
		verifrt.Assert(err == nil, label+".blob-readable")
		if err == nil {
			verifrt.Assert(digest.FromBytes(b).Encoded() == e.Name(), label+".blob-name-is-digest")
		}
	}
	for _, d := range index.Manifests {
		if d.Annotations[ocispec.AnnotationRefName] == "" {
			continue
		}
		fi, err := os.Stat(filepath.Join(algDir, d.Digest.Encoded()))
		verifrt.Assert(err == nil, label+".tagged-entry-has-blob")
		if err == nil {
			verifrt.Assert(fi.Size() == d.Size, label+".tagged-entry-size")
		}
	}
}

// truthPredecessors: stored parents of node j (ground truth), as sorted plain keys.
func truthPredecessors(nodes []vnode, m *refModel, j int) []string {
	seen := map[string]bool{}
	var keys []string
	for i := range nodes {
		if !m.stored[i] {
			continue
		}
		named := false
		for _, c := range nodes[i].links {
			if nodeIndex(nodes, nodes[c].desc) == nodeIndex(nodes, nodes[j].desc) {
				named = true
			}
		}
		if named {
			k := plainKey(nodes[i].desc)
			if !seen[k] {
				seen[k] = true
				keys = append(keys, k)
			}
		}
	}
	sort.Strings(keys)
	return keys
}


func must(err error) {
	if err != nil {
		panic(err)
	}
}

func newBytesReader(b []byte) *bytes.Reader { return bytes.NewReader(b) }

func sprintf(f string, a ...any) string { return fmt.Sprintf(f, a...) }

func sortStrings(s []string) { sort.Strings(s) }

// applyHistoryTags: n symbolic Tag/Untag operations (tags moved between nodes, tagged referrers).
func applyHistoryTags(ctx context.Context, s *Store, nodes []vnode, m *refModel, n int) {
	for step := 0; step < n; step++ {
		switch verifrt.Choice(3) {
		case 0:
		case 1:
			i := verifrt.Choice(len(nodes))
			ref := ociRefs[verifrt.Choice(len(ociRefs))]
			verifrt.Event(fmt.Sprintf("Tag(node%d,%s)", i, ref))
			if err := s.Tag(ctx, nodes[i].desc, ref); err == nil {
				m.tags[ref] = i
			}
		case 2:
			ref := ociRefs[verifrt.Choice(len(ociRefs))]
			if _, ok := m.tags[ref]; ok {
				verifrt.Event(fmt.Sprintf("Untag(%s)", ref))
				if err := s.Untag(ctx, ref); err == nil {
					delete(m.tags, ref)
				}
			}
		}
	}
}

// modelGC: keep what is reachable from a tagged node, plus indexed referrer chains ending in
// a reachable manifest.
func modelGC(nodes []vnode, m *refModel) {
	keep := make([]bool, len(nodes))
	var mark func(i int)
	mark = func(i int) {
		for j := range nodes {
			if sameBlob(nodes[j].desc, nodes[i].desc) && !keep[j] && m.stored[j] {
				keep[j] = true
				for _, c := range nodes[j].links {
					mark(c)
				}
				// a foreign layer entry names the blob file by digest as well: it is referenced content
				for _, c := range nodes[j].foreign {
					mark(c)
				}
			}
		}
	}
	for _, n := range m.tags {
		mark(n)
	}
	for changed := true; changed; {
		changed = false
		for r := range nodes {
			if !m.stored[r] || keep[r] || nodes[r].kind == kindBlob {
				continue
			}
			// follow the subject chain
			for s := nodes[r].subject; s >= 0; s = nodes[s].subject {
				if !storedIdx(nodes, m, s) {
					break
				}
				if keep[s] {
					mark(r)
					changed = true
					break
				}
			}
		}
	}
	for i := range nodes {
		if m.stored[i] && !keep[i] {
			m.stored[i] = false
		}
	}
}

