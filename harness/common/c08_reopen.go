//go:build verif

package oci

import (
	"archive/tar"
	"bytes"
	"context"
	"os"

	"oras.land/oras-go/v2/internal/verifrt"
)

func applyDelete(ctx context.Context, s *Store, nodes []vnode, m *refModel, i int) {
	// plain delete (AutoGC off in this harness): removes the content and its tags
	err := s.Delete(ctx, nodes[i].desc)
	if storedIdx(nodes, m, i) {
		verifrt.Assert(err == nil, "C06.oci.delete-succeeds")
		if err == nil {
			for j := range nodes {
				if sameBlob(nodes[j].desc, nodes[i].desc) {
					m.stored[j] = false
				}
			}
			for ref, n := range m.tags {
				if sameBlob(nodes[n].desc, nodes[i].desc) {
					delete(m.tags, ref)
				}
			}
		}
	} else {
		verifrt.Assert(err != nil, "C06.oci.delete-absent-fails")
	}
}

// GC in a history: the reference model keeps what is reachable from a tagged node or from an
// indexed referrer chain ending in a reachable manifest (same model as the C09 harness).
func applyGC(ctx context.Context, s *Store, nodes []vnode, m *refModel) {
	err := s.GC(ctx)
	verifrt.Assert(err == nil, "C08.gc-succeeds")
	modelGC(nodes, m)
}

// VerifC08Reopen: after any history of Push/Tag/Untag/Delete(/SaveIndex) the directory is a
// valid layout and reopening it (read-write, and read-only through an fs.FS) gives the same
// observable state; Predecessors is exact (C07) before and after the reopen.
func VerifC08Reopen() {
	K := verifrt.Param("K", 2)
	k := verifrt.Param("k", 2)
	ctx := context.Background()
	nodes := symDAG(K)
	root := verifrt.TempDir()
	s, err := New(root)
	if err != nil {
		panic(err)
	}
	s.AutoGC = false
	s.AutoSaveIndex = verifrt.Bool()
	m := &refModel{stored: make([]bool, K), tags: map[string]int{}}
	if verifrt.Param("prepush", 0) != 0 {
		// start from a populated layout so that short histories reach multi-tag states
		for i := range nodes {
			if verifrt.Param("prepush", 0) == 2 && nodes[i].kind == kindBlob {
				continue // parents are stored while their blob children are absent
			}
			if !storedIdx(nodes, m, i) {
				must(s.Push(ctx, nodes[i].desc, newBytesReader(nodes[i].bytes)))
			}
			m.stored[i] = true
		}
	}
	// tar=2: the layout is archived now and the files present after the history are appended
	// later (tar -r): the archive then holds index.json (and every blob) twice.
	var tarBuf bytes.Buffer
	tw := tar.NewWriter(&tarBuf)
	if verifrt.Param("tar", 0) == 2 {
		if !s.AutoSaveIndex {
			verifrt.Assert(s.SaveIndex() == nil, "C08.saveindex-succeeds")
		}
		tarTree(tw, root, "")
		must(tw.Flush())
	}
	applyHistory(ctx, s, nodes, m, k, verifrt.Param("gc", 0) != 0, verifrt.Param("delete", 1) != 0)
	if !s.AutoSaveIndex {
		verifrt.Assert(s.SaveIndex() == nil, "C08.saveindex-succeeds")
	}
	// the store agrees with the reference model
	before := observe(ctx, s, nodes)
	for i := range nodes {
		verifrt.Assert(before.exists[i] == storedIdx(nodes, m, i), "C06.oci.exists-matches-model")
		verifrt.Assert(before.fetchOK[i] == storedIdx(nodes, m, i), "C06.oci.fetch-matches-model")
		verifrt.Assert(strsEqual(before.preds[i], truthPredecessors(nodes, m, i)), "C07.oci.predecessors-exact")
	}
	for ref, n := range m.tags {
		verifrt.Assert(before.tagDesc[ref] == plainKey(nodes[n].desc), "C06.oci.resolve-latest-tag")
	}
	verifrt.Assert(len(before.tags) == len(m.tags), "C06.oci.tags-match-model")
	assertValidLayout(root, "C08.valid-layout")

	// reopen read-write
	s2, err := New(root)
	verifrt.Assert(err == nil, "C08.reopen.opens")
	if err != nil {
		return
	}
	after := observe(ctx, s2, nodes)
	assertSameObservation(before, after, "C08.same-state")
	for i := range nodes {
		verifrt.Assert(strsEqual(after.preds[i], truthPredecessors(nodes, m, i)), "C07.oci.predecessors-exact-after-reopen")
	}
	// reopen read-only through an fs.FS
	if verifrt.Param("fsfs", 1) != 0 {
		ro, err := NewFromFS(ctx, os.DirFS(root))
		verifrt.Assert(err == nil, "C08.reopen-fs.opens")
		if err == nil {
			assertSameObservation(before, observe(ctx, ro, nodes), "C08.same-state-fs")
		}
	}
	// reopen read-only from a tar archive of the directory
	if verifrt.Param("tar", 0) != 0 {
		tarTree(tw, root, "")
		must(tw.Close())
		arch := verifrt.TempDir() + "/layout.tar"
		must(os.WriteFile(arch, tarBuf.Bytes(), 0o644))
		ro, err := NewFromTar(ctx, arch)
		verifrt.Assert(err == nil, "C08.reopen-tar.opens")
		if err == nil {
			ot := observe(ctx, ro, nodes)
			assertSameObservation(before, ot, "C08.same-state-tar")
			for i := range nodes {
				verifrt.Assert(strsEqual(ot.preds[i], truthPredecessors(nodes, m, i)), "C07.oci.predecessors-exact-after-tar-reopen")
			}
		}
	}
	verifrt.Reach("C08.reopen.end")
}

// tarTree writes the files and directories below dir into tw, names relative to the layout root.
func tarTree(tw *tar.Writer, dir, rel string) {
	ents, err := os.ReadDir(dir)
	if err != nil {
		panic(err)
	}
	for _, e := range ents {
		name := e.Name()
		if rel != "" {
			name = rel + "/" + e.Name()
		}
		if e.IsDir() {
			must(tw.WriteHeader(&tar.Header{Typeflag: tar.TypeDir, Name: name + "/", Mode: 0o755}))
			tarTree(tw, dir+"/"+e.Name(), name)
			continue
		}
		b, err := os.ReadFile(dir + "/" + e.Name())
		if err != nil {
			panic(err)
		}
		must(tw.WriteHeader(&tar.Header{Typeflag: tar.TypeReg, Name: name, Mode: 0o644, Size: int64(len(b))}))
		if _, err := tw.Write(b); err != nil {
			panic(err)
		}
	}
}
