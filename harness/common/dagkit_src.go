//go:build verif

package __PKG__

import (
	"bytes"
	"context"
	"errors"

	"oras.land/oras-go/v2/content/memory"
)

func newSource(nodes []vnode) *memory.Store {
	src := memory.New()
	for i := range nodes {
		err := src.Push(context.Background(), nodes[i].desc, bytes.NewReader(nodes[i].bytes))
		if err != nil && !errors.Is(err, errAlreadyExists()) {
			panic(err)
		}
	}
	return src
}

