//go:build verif

package __PKG__

import (
	"errors"
	"io"

	"oras.land/oras-go/v2/internal/verifrt"
)

// ndReader is an arbitrary io.Reader: the stream it will deliver is data; every Read
// returns an arbitrary prefix of what is left (arbitrary chunking, up to 2 empty reads),
// io.EOF exactly when the stream is exhausted (together with or after the last bytes), or
// an arbitrary other error at any point.
type ndReader struct {
	data    []byte
	pos     int
	calls   int
	zero    int
	sawEOF  bool
	failed  bool
	maxCall int
	noFail  bool
}

var errNd = errors.New("nd reader failure")

func (r *ndReader) Read(p []byte) (int, error) {
	r.calls++
	verifrt.Assume(r.calls <= r.maxCall)
	rem := len(r.data) - r.pos
	max := len(p)
	if rem < max {
		max = rem
	}
	n := verifrt.Choice(max + 1)
	copy(p, r.data[r.pos:r.pos+n])
	r.pos += n
	// outcomes: 0 = nil, 1 = other error, 2 = io.EOF (only at the end of the stream)
	var kinds []int
	if !(n == 0 && len(p) > 0 && r.zero >= 2) {
		kinds = append(kinds, 0)
	}
	if !r.noFail {
		kinds = append(kinds, 1)
	}
	if r.pos == len(r.data) {
		kinds = append(kinds, 2)
	}
	verifrt.Assume(len(kinds) > 0)
	switch kinds[verifrt.Choice(len(kinds))] {
	case 2:
		r.sawEOF = true
		return n, io.EOF
	case 1:
		r.failed = true
		return n, errNd
	}
	if n == 0 && len(p) > 0 {
		r.zero++
	}
	return n, nil
}
