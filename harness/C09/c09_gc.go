//go:build verif

package oci

import (
	"context"
	"os"
	"path/filepath"

	ocispec "github.com/opencontainers/image-spec/specs-go/v1"
	"oras.land/oras-go/v2/internal/verifrt"
)

// ---- reference garbage-collection model (written from the statement) ----

func (m *refModel) tagged(nodes []vnode, i int) bool {
	for _, n := range m.tags {
		if sameBlob(nodes[n].desc, nodes[i].desc) {
			return true
		}
	}
	return false
}

// subjectOf returns the node index named as subject by node i, or -1.
func subjectOf(nodes []vnode, i int) int {
	return nodes[i].subject
}

func hasStoredParent(nodes []vnode, m *refModel, j int) bool {
	for i := range nodes {
		if !m.stored[i] || sameBlob(nodes[i].desc, nodes[j].desc) {
			continue
		}
		for _, c := range nodes[i].links {
			if sameBlob(nodes[c].desc, nodes[j].desc) {
				return true
			}
		}
	}
	return false
}

// hasStoredForeignRef: some stored manifest lists j's bytes as a foreign layer.
func hasStoredForeignRef(nodes []vnode, m *refModel, j int) bool {
	for i := range nodes {
		if !m.stored[i] {
			continue
		}
		for _, c := range nodes[i].foreign {
			if sameBlob(nodes[c].desc, nodes[j].desc) {
				return true
			}
		}
	}
	return false
}

// modelDelete: d and its tags go; with auto-GC additionally, recursively, the untagged
// manifests whose subject was removed and the untagged nodes that lost their last predecessor.
func modelDelete(nodes []vnode, m *refModel, d int, autoGC bool) {
	queue := []int{d}
	first := true
	for len(queue) > 0 {
		x := queue[0]
		queue = queue[1:]
		if !storedIdx(nodes, m, x) {
			continue
		}
		if !first && m.tagged(nodes, x) {
			continue // never a manifest that carries a tag
		}
		if !first && hasStoredParent(nodes, m, x) && !subjectRemoved(nodes, m, x) {
			continue // never a node a surviving node still links to
		}
		first = false
		for j := range nodes {
			if sameBlob(nodes[j].desc, nodes[x].desc) {
				m.stored[j] = false
			}
		}
		for ref, n := range m.tags {
			if sameBlob(nodes[n].desc, nodes[x].desc) {
				delete(m.tags, ref)
			}
		}
		if !autoGC {
			continue
		}
		for r := range nodes {
			if m.stored[r] && nodes[r].subject >= 0 && sameBlob(nodes[nodes[r].subject].desc, nodes[x].desc) {
				queue = append(queue, r) // referrer of a removed manifest
			}
		}
		for _, c := range nodes[x].links {
			if storedIdx(nodes, m, c) && !hasStoredParent(nodes, m, c) {
				queue = append(queue, c) // lost its last predecessor
			}
		}
	}
}

// subjectRemoved: x is a manifest whose subject is no longer stored.
func subjectRemoved(nodes []vnode, m *refModel, x int) bool {
	s := nodes[x].subject
	return s >= 0 && !storedIdx(nodes, m, s)
}

func applyDelete(ctx context.Context, s *Store, nodes []vnode, m *refModel, i int) {
	present := storedIdx(nodes, m, i)
	err := s.Delete(ctx, nodes[i].desc)
	if present {
		verifrt.Assert(err == nil, "C09.delete.succeeds")
		modelDelete(nodes, m, i, s.AutoGC)
	} else {
		verifrt.Assert(err != nil, "C09.delete.absent-fails")
	}
}

func applyGC(ctx context.Context, s *Store, nodes []vnode, m *refModel) {
	err := s.GC(ctx)
	verifrt.Assert(err == nil, "C09.gc.succeeds")
	modelGC(nodes, m)
}

func blobFiles(root string) map[string]bool {
	r := map[string]bool{}
	ents, _ := os.ReadDir(filepath.Join(root, ocispec.ImageBlobsDir, "sha256"))
	for _, e := range ents {
		r[e.Name()] = true
	}
	return r
}

// VerifC09GC: history of pushes/tags/untags followed by Delete (auto-GC on or off) and/or GC,
// compared with the reference garbage-collection model.
func VerifC09GC() {
	K := verifrt.Param("K", 3)
	k := verifrt.Param("k", 2)
	ctx := context.Background()
	nodes := symDAG(K)
	root := verifrt.TempDir()
	s, err := New(root)
	if err != nil {
		panic(err)
	}
	s.AutoGC = verifrt.Bool()
	m := &refModel{stored: make([]bool, K), tags: map[string]int{}}
	// everything is pushed children-first, then a tagging history, then the operations under test
	// (param partial: one node may never have been pushed — a referrer whose subject is missing, a
	// manifest whose layer is missing: states every history of pushes can reach)
	skip := -1
	if verifrt.Param("partial", 0) != 0 {
		skip = verifrt.Choice(K+1) - 1
		if skip >= 0 {
			verifrt.Event(sprintf("node%d never pushed", skip))
		}
	}
	for i := range nodes {
		if i == skip || (skip >= 0 && sameBlob(nodes[i].desc, nodes[skip].desc)) {
			continue
		}
		if !storedIdx(nodes, m, i) {
			must(s.Push(ctx, nodes[i].desc, newBytesReader(nodes[i].bytes)))
		}
		m.stored[i] = true
	}
	if verifrt.Param("stray", 0) != 0 && verifrt.Bool() {
		// a stray blob file nobody indexed
		os.WriteFile(filepath.Join(root, ocispec.ImageBlobsDir, "sha256", "0000000000000000000000000000000000000000000000000000000000000000"), []byte("x"), 0o644)
	}
	applyHistoryTags(ctx, s, nodes, m, verifrt.Param("tags", 2))
	// shapes in which a referrer that would be removed is also a child of another stored node are
	// ambiguous in the statement ("untagged manifests whose subject was removed" vs "never a node a
	// surviving node still links to"): not judged
	for r := range nodes {
		if nodes[r].subject >= 0 {
			verifrt.Assume(!hasStoredParent(nodes, m, r))
		}
	}
	for step := 0; step < k; step++ {
		if verifrt.Param("gconly", 0) == 0 && verifrt.Bool() {
			i := verifrt.Choice(K)
			verifrt.Event(sprintf("Delete(node%d) autoGC=%v", i, s.AutoGC))
			applyDelete(ctx, s, nodes, m, i)
		} else {
			verifrt.Event("GC")
			applyGC(ctx, s, nodes, m)
		}
		// compare with the model
		files := blobFiles(root)
		for i := range nodes {
			ok, _ := s.Exists(ctx, nodes[i].desc)
			want := storedIdx(nodes, m, i)
			if want {
				verifrt.Assert(ok, "C09.keeps-live-content")
			} else {
				verifrt.Assert(!ok, "C09.removes-garbage")
			}
			verifrt.Assert(files[nodes[i].desc.Digest.Encoded()] == want, "C09.blob-files-exact")
		}
		for ref, n := range m.tags {
			d, err := s.Resolve(ctx, ref)
			verifrt.Assert(err == nil && d.Digest == nodes[n].desc.Digest, "C09.keeps-other-tags")
		}
		var tags []string
		s.Tags(ctx, "", func(t []string) error { tags = append(tags, t...); return nil })
		verifrt.Assert(len(tags) == len(m.tags), "C09.tags-exact")
		for i := range nodes {
			if storedIdx(nodes, m, i) {
				ps, _ := s.Predecessors(ctx, nodes[i].desc)
				var keys []string
				for _, p := range ps {
					keys = append(keys, plainKey(p))
				}
				sortStrings(keys)
				verifrt.Assert(strsEqual(keys, truthPredecessors(nodes, m, i)), "C09.predecessors-intact")
			}
		}
	}
	verifrt.Reach("C09.end")
}
