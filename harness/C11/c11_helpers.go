//go:build verif

package file

import (
	"context"

	ocispec "github.com/opencontainers/image-spec/specs-go/v1"
	"oras.land/oras-go/v2/content"
)

func contentDescriptor(b []byte) ocispec.Descriptor {
	return content.NewDescriptorFromBytes("application/octet-stream", b)
}

func contextBackground() context.Context { return context.Background() }
