//go:build verif

package file

import (
	"archive/tar"
	"bytes"
	"fmt"
	"os"
	"path/filepath"
	"sort"

	"oras.land/oras-go/v2/internal/verifrt"
)

// snapshot of everything below root except the subtree `except`: path -> description
func c11Snapshot(root, except string) map[string]string {
	out := map[string]string{}
	var walk func(p string)
	walk = func(p string) {
		if p == except {
			return
		}
		fi, err := os.Lstat(p)
		if err != nil {
			return
		}
		switch {
		case fi.Mode()&os.ModeSymlink != 0:
			t, _ := os.Readlink(p)
			out[p] = "link:" + t
		case fi.IsDir():
			out[p] = fmt.Sprintf("dir:%o", fi.Mode().Perm())
			ents, _ := os.ReadDir(p)
			for _, e := range ents {
				walk(filepath.Join(p, e.Name()))
			}
		default:
			b, _ := os.ReadFile(p)
			out[p] = fmt.Sprintf("file:%o:%q", fi.Mode().Perm(), string(b))
		}
	}
	walk(root)
	return out
}

func c11Same(a, b map[string]string) bool {
	if len(a) != len(b) {
		return false
	}
	var keys []string
	for k := range a {
		keys = append(keys, k)
	}
	sort.Strings(keys)
	for _, k := range keys {
		if a[k] != b[k] {
			return false
		}
	}
	return true
}

type c11Entry struct {
	typ  byte
	name string
	link string
}

// VerifC11Extract: a tar stream with n arbitrary entries (regular, directory, symlink, hard link;
// names and link targets relative, absolute, with "..", through earlier symlinks, naming files of
// the process's current directory) is extracted into the working directory: nothing outside the
// working directory may change.
func VerifC11Extract() {
	n := verifrt.Param("n", 2)
	root := verifrt.TempDir()
	work := filepath.Join(root, "work")
	dirName := "d"
	dirPath := filepath.Join(work, dirName)
	must(os.MkdirAll(dirPath, 0o755))
	must(os.WriteFile(filepath.Join(root, "victim"), []byte("V"), 0o644))
	cwd := filepath.Join(root, "cwd")
	must(os.MkdirAll(filepath.Join(cwd, dirName), 0o755))
	must(os.WriteFile(filepath.Join(cwd, "c"), []byte("C"), 0o644))
	must(os.WriteFile(filepath.Join(cwd, dirName, "c"), []byte("D"), 0o644))
	must(os.Chdir(cwd))
	if verifrt.Param("prepop", 0) != 0 && verifrt.Bool() {
		must(os.MkdirAll(filepath.Join(dirPath, "s"), 0o755)) // pre-populated sub-directory
	}

	names := []string{"d/a", "d/b", "d/s/u", "d/../victim", "d/a/../../../victim", dirPath + "/a", root + "/victim", "d/c"}
	links := []string{"a", "b", "..", "../../victim", root + "/victim", "s/u/../../victim", "c", "../c", "d/c", "s"}
	types := []byte{tar.TypeReg, tar.TypeDir, tar.TypeSymlink, tar.TypeLink}
	if verifrt.Param("family", 0) == 1 {
		// symlink-chain family: link targets that pass through earlier symlinks
		must(os.MkdirAll(filepath.Join(dirPath, "s"), 0o755))
		names = []string{"d/a", "d/s/u", "d/x", "d/x/victim"}
		links = []string{"..", "s/u/../../victim", "s/u/../..", "a", dirPath + "/s/u/../../victim"}
		types = []byte{tar.TypeReg, tar.TypeSymlink, tar.TypeLink}
	}
	var buf bytes.Buffer
	tw := tar.NewWriter(&buf)
	for i := 0; i < n; i++ {
		e := c11Entry{typ: types[verifrt.Choice(len(types))], name: names[verifrt.Choice(len(names))]}
		hdr := &tar.Header{Name: e.name, Typeflag: e.typ, Mode: 0o644}
		switch e.typ {
		case tar.TypeReg:
			hdr.Size = 1
		case tar.TypeDir:
			hdr.Mode = 0o755
		default:
			e.link = links[verifrt.Choice(len(links))]
			hdr.Linkname = e.link
		}
		verifrt.Event(fmt.Sprintf("entry %c %s -> %s", e.typ, e.name, e.link))
		must(tw.WriteHeader(hdr))
		if e.typ == tar.TypeReg {
			_, err := tw.Write([]byte("X"))
			must(err)
		}
	}
	must(tw.Close())

	before := c11Snapshot(root, work)
	err := extractTarDirectory(dirPath, dirName, bytes.NewReader(buf.Bytes()), make([]byte, 1024), false)
	after := c11Snapshot(root, work)
	verifrt.Assert(c11Same(before, after), "C11.outside-unchanged")
	if err == nil {
		verifrt.Reach("C11.extract.ok")
	} else {
		verifrt.Reach("C11.extract.rejected")
	}
}

func must(err error) {
	if err != nil {
		panic(err)
	}
}

// VerifC11Name: pushing a named blob whose title is an arbitrary string over the characters
// that matter to path handling ('/', '.', two letters; relative or absolute, with "..", empty
// segments) never changes anything outside the working directory; a name resolving outside is
// rejected.
func VerifC11Name() {
	S := verifrt.Param("S", 4)
	root := verifrt.TempDir()
	work := filepath.Join(root, "w")
	must(os.MkdirAll(work, 0o755))
	must(os.WriteFile(filepath.Join(root, "victim"), []byte("V"), 0o644))
	must(os.WriteFile(filepath.Join(root, "a"), []byte("A"), 0o644))
	cwd := filepath.Join(root, "cwd")
	must(os.MkdirAll(cwd, 0o755))
	must(os.Chdir(cwd))
	store, err := New(work)
	if err != nil {
		panic(err)
	}
	defer store.Close()
	title := verifrt.StringOver("/.aw", 1, S)
	if verifrt.Bool() {
		title = root + "/" + title // absolute names below the sandbox root
	}
	verifrt.Event("title=" + title)
	data := []byte("X")
	desc := contentDescriptor(data)
	desc.Annotations = map[string]string{"org.opencontainers.image.title": title}
	before := c11Snapshot(root, work)
	perr := store.Push(contextBackground(), desc, bytes.NewReader(data))
	after := c11Snapshot(root, work)
	verifrt.Assert(c11Same(before, after), "C11.name.outside-unchanged")
	if perr == nil {
		verifrt.Reach("C11.name.ok")
	} else {
		verifrt.Reach("C11.name.rejected")
	}
}
