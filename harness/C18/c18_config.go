//go:build verif

package config

import (
	"encoding/json"
	"fmt"
	"os"
	"path/filepath"

	"oras.land/oras-go/v2/internal/verifrt"
	"oras.land/oras-go/v2/registry/remote/auth"
)

// pre-existing config documents: unknown top-level keys, other registries with unknown fields,
// a legacy "https://host/" key, a credsStore entry.
var c18Docs = []string{
	``, // no file
	`{}`,
	`{"auths":{"other.io":{"auth":"dTpw","email":"keep@me"}},"experimental":"enabled","nested":{"a":[1,2,{"b":null}]}}`,
	`{"auths":{"https://legacy.io/":{"auth":"bDps"},"other.io":{"identitytoken":"tok","x":{"y":1}}},"credsStore":"desktop","HttpHeaders":{"User-Agent":"u"}}`,
}

const c18Plain = "aB0+/= .-_:" // bytes that need no JSON escaping (':' only allowed outside usernames)

func c18Generic(raw []byte) string {
	var v any
	if err := json.Unmarshal(raw, &v); err != nil {
		return "error:" + err.Error()
	}
	b, _ := json.Marshal(v)
	return string(b)
}

// readDoc parses the config file as top-level raw messages and the auths object.
func c18Read(path string) (top map[string]json.RawMessage, auths map[string]json.RawMessage, err error) {
	b, err := os.ReadFile(path)
	if err != nil {
		return nil, nil, err
	}
	if err := json.Unmarshal(b, &top); err != nil {
		return nil, nil, err
	}
	if a, ok := top["auths"]; ok {
		if err := json.Unmarshal(a, &auths); err != nil {
			return nil, nil, err
		}
	}
	return top, auths, nil
}

func c18SameOthers(before, after map[string]json.RawMessage, skip string, label string) {
	for k, v := range before {
		if k == skip {
			continue
		}
		w, ok := after[k]
		verifrt.Assert(ok, label+".key-kept")
		if ok {
			verifrt.Assert(c18Generic(v) == c18Generic(w), label+".value-kept")
		}
	}
	for k := range after {
		if k == skip {
			continue
		}
		_, ok := before[k]
		verifrt.Assert(ok, label+".no-new-key")
	}
}

func c18Cred() auth.Credential {
	S := verifrt.Param("S", 1)
	u := verifrt.StringOver("aB0+/= .-_", 0, S)
	return auth.Credential{
		Username:     u,
		Password:     verifrt.StringOver(c18Plain, 0, S),
		RefreshToken: verifrt.StringOver(c18Plain, 0, S),
		AccessToken:  verifrt.StringOver(c18Plain, 0, S),
	}
}

func c18CredEq(a, b auth.Credential) bool {
	if len(a.Username) != len(b.Username) || len(a.Password) != len(b.Password) || len(a.RefreshToken) != len(b.RefreshToken) || len(a.AccessToken) != len(b.AccessToken) {
		return false
	}
	return verifrt.And(verifrt.And(verifrt.StrEq(a.Username, b.Username), verifrt.StrEq(a.Password, b.Password)),
		verifrt.And(verifrt.StrEq(a.RefreshToken, b.RefreshToken), verifrt.StrEq(a.AccessToken, b.AccessToken)))
}

// VerifC18Config: Put / Get / Delete on a config file with arbitrary pre-existing content:
// round trip of the four secret fields, preservation of every other top-level key and every
// other registry's entry (unknown fields included), owner-only file mode, and — with the crash
// point armed — old-or-new file at every point of a save.
func VerifC18Config() {
	dir := verifrt.TempDir()
	path := filepath.Join(dir, "sub", "config.json")
	doc := c18Docs[verifrt.Choice(len(c18Docs))]
	if doc != "" {
		must(os.MkdirAll(filepath.Dir(path), 0o700))
		// the existing file may have been written by hand with a wider mode
		mode := []os.FileMode{0o600, 0o644}[verifrt.Choice(2)]
		must(os.WriteFile(path, []byte(doc), mode))
		must(os.Chmod(path, mode))
	}
	cfg, err := Load(path)
	if err != nil {
		panic(err)
	}
	var beforeTop, beforeAuths map[string]json.RawMessage
	if doc != "" {
		beforeTop, beforeAuths, _ = c18Read(path)
	}
	server := []string{"reg.io", "other.io"}[verifrt.Choice(2)]
	cred := c18Cred()
	crash := verifrt.Param("crash", 0) != 0
	if crash {
		oldText := doc
		verifrt.AfterCrash(func() {
			b, rerr := os.ReadFile(path)
			if rerr != nil {
				// the file may only be missing if it did not exist before
				verifrt.Assert(oldText == "", "C18.atomic.file-never-vanishes")
				return
			}
			if string(b) == oldText {
				verifrt.Reach("C18.atomic.old")
				return
			}
			// otherwise it must be the complete new document
			top, auths, perr := c18Read(path)
			verifrt.Assert(perr == nil, "C18.atomic.complete-document")
			if perr == nil {
				_, ok := auths[server]
				verifrt.Assert(ok, "C18.atomic.new-has-entry")
				c18SameOthers(beforeTop, top, "auths", "C18.atomic.preserve-top")
				verifrt.Reach("C18.atomic.new")
			}
		})
		verifrt.CrashPoint()
	}
	verifrt.Event(fmt.Sprintf("Put(%s) on doc %q", server, doc))
	err = cfg.PutCredential(server, cred)
	verifrt.Assert(err == nil, "C18.put.succeeds")
	if err != nil {
		return
	}
	got, err := cfg.GetCredential(server)
	verifrt.Assert(err == nil, "C18.get.succeeds")
	if cred.Username == "" && cred.Password == "" {
		// nothing to encode: username and password come back empty
		verifrt.Assert(got.Username == "" && got.Password == "", "C18.roundtrip.empty-basic")
	}
	verifrt.Assert(c18CredEq(got, cred), "C18.roundtrip.same-four-fields")
	// a fresh store reading the file sees the same
	cfg2, err := Load(path)
	verifrt.Assert(err == nil, "C18.reload.succeeds")
	if err == nil {
		got2, err := cfg2.GetCredential(server)
		verifrt.Assert(err == nil && c18CredEq(got2, cred), "C18.roundtrip.after-reload")
	}
	fi, err := os.Stat(path)
	verifrt.Assert(err == nil && fi.Mode().Perm() == 0o600, "C18.mode.owner-only")
	afterTop, afterAuths, err := c18Read(path)
	verifrt.Assert(err == nil, "C18.file-parses")
	if err == nil && doc != "" {
		c18SameOthers(beforeTop, afterTop, "auths", "C18.preserve.top-level")
		c18SameOthers(beforeAuths, afterAuths, server, "C18.preserve.other-registries")
	}
	// Delete removes just that entry
	if verifrt.Bool() {
		verifrt.Assert(cfg.DeleteCredential(server) == nil, "C18.delete.succeeds")
		top3, auths3, err := c18Read(path)
		verifrt.Assert(err == nil, "C18.file-parses")
		if err == nil {
			_, still := auths3[server]
			verifrt.Assert(!still, "C18.delete.entry-gone")
			c18SameOthers(afterTop, top3, "auths", "C18.delete.preserve-top-level")
			c18SameOthers(afterAuths, auths3, server, "C18.delete.preserve-other-registries")
			for k := range auths3 {
				_, ok := afterAuths[k]
				verifrt.Assert(ok, "C18.delete.no-new-entry")
			}
		}
		g3, err := cfg.GetCredential(server)
		verifrt.Assert(err == nil && g3 == auth.EmptyCredential, "C18.delete.get-empty")
		verifrt.Reach("C18.deleted")
	}
	verifrt.Reach("C18.config.end")
}

func must(err error) {
	if err != nil {
		panic(err)
	}
}
