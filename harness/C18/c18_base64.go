//go:build verif

package config

import (
	"oras.land/oras-go/v2/internal/verifrt"
)

// VerifC18Base64: decodeAuth(encodeAuth(u, p)) = (u, p) for every username without ':' and
// every password (empty parts, colons, arbitrary bytes), with encoding/base64 interpreted.
func VerifC18Base64() {
	S := verifrt.Param("S", 2)
	u := verifrt.String(0, S)
	p := verifrt.String(0, S)
	for i := 0; i < len(u); i++ {
		verifrt.Assume(u[i] != ':') // usernames containing ':' are refused by FileStore.Put
	}
	enc := encodeAuth(u, p)
	u2, p2, err := decodeAuth(enc)
	verifrt.Assert(err == nil, "C18.base64.decodes")
	if err == nil {
		verifrt.Assert(len(u2) == len(u) && len(p2) == len(p), "C18.base64.lengths")
		if len(u2) == len(u) && len(p2) == len(p) {
			verifrt.Assert(verifrt.And(verifrt.StrEq(u2, u), verifrt.StrEq(p2, p)), "C18.base64.roundtrip")
		}
	}
	verifrt.Reach("C18.base64.end")
}
