//go:build verif

package memory

import (
	"bytes"
	"context"
	"fmt"
	"sort"

	"oras.land/oras-go/v2/internal/verifrt"
)

func c07Truth(nodes []vnode, stored []bool, j int) []string {
	seen := map[string]bool{}
	var want []string
	for i := range nodes {
		if !stored[i] {
			continue
		}
		for _, c := range nodes[i].links {
			if nodeIndex(nodes, nodes[c].desc) == nodeIndex(nodes, nodes[j].desc) && !seen[c06Key(nodes[i].desc)] {
				seen[c06Key(nodes[i].desc)] = true
				want = append(want, c06Key(nodes[i].desc))
			}
		}
	}
	sort.Strings(want)
	return want
}

func c07Check(ctx context.Context, s *Store, nodes []vnode, stored []bool, label string) {
	for j := range nodes {
		ps, err := s.Predecessors(ctx, nodes[j].desc)
		verifrt.Assert(err == nil, label+".no-error")
		var got []string
		for _, p := range ps {
			got = append(got, c06Key(p))
		}
		sort.Strings(got)
		for i := 1; i < len(got); i++ {
			verifrt.Assert(got[i-1] != got[i], label+".no-duplicates")
		}
		verifrt.Assert(fmt.Sprint(got) == fmt.Sprint(c07Truth(nodes, stored, j)), label+".exact")
	}
}

// VerifC07MemoryOrder: the DAG is pushed in an arbitrary order (parents first, children first,
// some nodes never), then Predecessors of every node — stored or not — is exact.
func VerifC07MemoryOrder() {
	K := verifrt.Param("K", 3)
	ctx := context.Background()
	nodes := symDAG(K)
	s := New()
	stored := make([]bool, K)
	remaining := make([]int, K)
	for i := range remaining {
		remaining[i] = i
	}
	n := verifrt.Choice(K + 1) // how many nodes get pushed
	for step := 0; step < n; step++ {
		pick := verifrt.Choice(len(remaining))
		i := remaining[pick]
		remaining = append(append([]int(nil), remaining[:pick]...), remaining[pick+1:]...)
		verifrt.Event(fmt.Sprintf("Push(node%d)", i))
		err := s.Push(ctx, nodes[i].desc, bytes.NewReader(nodes[i].bytes))
		if err == nil {
			stored[i] = true
		}
		if verifrt.Param("each", 0) != 0 {
			c07Check(ctx, s, nodes, stored, "C07.memory.after-each-push")
		}
	}
	c07Check(ctx, s, nodes, stored, "C07.memory.predecessors")
	verifrt.Reach("C07.memory.end")
}

// VerifC07MemoryConcurrent: two goroutines push interleaved halves of the DAG.
func VerifC07MemoryConcurrent() {
	K := verifrt.Param("K", 3)
	verifrt.Sched(verifrt.SchedAll)
	ctx := context.Background()
	nodes := symDAG(K)
	s := New()
	stored := make([]bool, K)
	done := make(chan bool, 2)
	split := verifrt.Choice(K + 1)
	for g := 0; g < 2; g++ {
		go func(g int) {
			for i := 0; i < K; i++ {
				if (i < split) == (g == 0) {
					verifrt.Yield()
					if err := s.Push(ctx, nodes[i].desc, bytes.NewReader(nodes[i].bytes)); err == nil {
						stored[i] = true
					}
				}
			}
			done <- true
		}(g)
	}
	<-done
	<-done
	c07Check(ctx, s, nodes, stored, "C07.concurrent.predecessors")
	verifrt.Reach("C07.concurrent.end")
}
