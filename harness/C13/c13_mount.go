//go:build verif

package remote

import (
	"bytes"
	"context"
	"fmt"
	"io"

	"oras.land/oras-go/v2/internal/verifrt"
	"oras.land/oras-go/v2/registry"
)

// VerifC13Mount: Repository.Mount against the registry model, for every capability profile
// (mount supported or answered with the 202 fallback, digest header on/off, upload Location
// with or without a query), source repository holding the blob or not, content callback given
// or not, and one corrupted field (the digest header of the 201): afterwards the repository
// holds the blob exactly when Mount reported success, every request is one the spec allows,
// and a 201 whose digest header contradicts the requested digest makes the call fail.
func VerifC13Mount() {
	ctx := context.Background()
	reg := newRegModel()
	reg.digestHdr = verifrt.Bool()
	reg.mountCap = verifrt.Bool()
	reg.locQuery = verifrt.Bool()
	reg.ranges = verifrt.Bool()
	uni := c13Universe()
	c := uni[verifrt.Choice(2)]
	dg := string(c.desc.Digest)
	reg.otherBlobs = map[string][]byte{}
	srcHas := verifrt.Bool()
	if srcHas {
		reg.otherBlobs[dg] = c.data
	}
	already := verifrt.Bool()
	if already {
		reg.blobs[dg] = c.data
	}
	if reg.mountCap && reg.digestHdr && srcHas {
		reg.mountCorrupt = verifrt.Choice(3)
	}
	verifrt.Event(fmt.Sprintf("profile digestHdr=%v mountCap=%v locQuery=%v srcHas=%v already=%v corrupt=%d", reg.digestHdr, reg.mountCap, reg.locQuery, srcHas, already, reg.mountCorrupt))
	repo := &Repository{Reference: registry.Reference{Registry: "r.io", Repository: "a/b"}, Client: reg}
	var getContent func() (io.ReadCloser, error)
	called := 0
	if verifrt.Bool() {
		getContent = func() (io.ReadCloser, error) {
			called++
			return io.NopCloser(bytes.NewReader(c.data)), nil
		}
		verifrt.Event("getContent given")
	}
	err := repo.Mount(ctx, c.desc, "c/d", getContent)
	verifrt.Assert(reg.badRequest == "", "C13.mount.request-allowed-by-spec")
	have := func() bool { b, ok := reg.blobs[dg]; return ok && bytes.Equal(b, c.data) }
	switch {
	case reg.mountCorrupt != 0:
		verifrt.Assert(err != nil, "C13.mount.contradicting-digest-fails")
		verifrt.Reach("C13.mount.corrupt")
	case reg.mountCap && srcHas:
		verifrt.Assert(err == nil, "C13.mount.succeeds")
		verifrt.Assert(reg.nMounted == 1 && called == 0, "C13.mount.mounted-without-upload")
		verifrt.Reach("C13.mount.mounted")
	case getContent != nil || srcHas:
		// 202 fallback: the content comes from the callback or from the source repository
		verifrt.Assert(err == nil, "C13.mount.fallback-succeeds")
		verifrt.Assert(called <= 1, "C13.mount.callback-at-most-once")
		verifrt.Reach("C13.mount.fallback")
	default:
		verifrt.Assert(err != nil, "C13.mount.no-source-fails")
		verifrt.Assert(have() == already, "C13.mount.failed-mount-changes-nothing")
		verifrt.Reach("C13.mount.no-source")
	}
	if err == nil {
		verifrt.Assert(have(), "C13.mount.success-means-present")
		ok, eerr := repo.Exists(ctx, c.desc)
		verifrt.Assert(eerr == nil && ok, "C13.mount.exists-after-mount")
		rc, ferr := repo.Fetch(ctx, c.desc)
		verifrt.Assert(ferr == nil, "C13.mount.fetch-after-mount")
		if ferr == nil {
			b, rerr := io.ReadAll(rc)
			rc.Close()
			verifrt.Assert(rerr == nil && bytes.Equal(b, c.data), "C13.mount.bytes-as-source")
		}
		verifrt.Assert(reg.badRequest == "", "C13.mount.request-allowed-by-spec")
	}
	verifrt.Reach("C13.mount.end")
}
