//go:build verif

package httputil

import (
	"context"
	"fmt"
	"io"
	"math"
	"net/http"
	"strconv"
	"strings"

	"oras.land/oras-go/v2/internal/verifrt"
)

const seekData = "0123456789"

type rangePeer struct {
	bad     string
	ranges  []string
	dataEOF bool // bodies deliver their last bytes together with io.EOF (as net/http does for Content-Length bodies)
}

// eofBody returns its final chunk together with io.EOF.
type eofBody struct {
	data []byte
	pos  int
}

func (b *eofBody) Read(p []byte) (int, error) {
	if b.pos >= len(b.data) {
		return 0, io.EOF
	}
	n := copy(p, b.data[b.pos:])
	b.pos += n
	if b.pos >= len(b.data) {
		return n, io.EOF
	}
	return n, nil
}
func (b *eofBody) Close() error { return nil }

func (p *rangePeer) body(s string) io.ReadCloser {
	if p.dataEOF {
		return &eofBody{data: []byte(s)}
	}
	return io.NopCloser(strings.NewReader(s))
}

func (p *rangePeer) Do(req *http.Request) (*http.Response, error) {
	r := req.Header.Get("Range")
	p.ranges = append(p.ranges, r)
	// bytes=<start>-<end>
	if !strings.HasPrefix(r, "bytes=") {
		p.bad = "no Range header"
		return &http.Response{StatusCode: http.StatusOK, Header: http.Header{}, Request: req, Body: io.NopCloser(strings.NewReader(seekData))}, nil
	}
	parts := strings.Split(r[6:], "-")
	if len(parts) != 2 {
		p.bad = "malformed Range " + r
		return &http.Response{StatusCode: http.StatusBadRequest, Header: http.Header{}, Request: req, Body: http.NoBody}, nil
	}
	start, err1 := strconv.ParseInt(parts[0], 10, 64)
	end, err2 := strconv.ParseInt(parts[1], 10, 64)
	if err1 != nil || err2 != nil || start < 0 || start >= int64(len(seekData)) || end != int64(len(seekData))-1 {
		p.bad = "Range outside the blob: " + r
		return &http.Response{StatusCode: http.StatusRequestedRangeNotSatisfiable, Header: http.Header{}, Request: req, Body: http.NoBody}, nil
	}
	return &http.Response{StatusCode: http.StatusPartialContent, Header: http.Header{}, Request: req, Body: p.body(seekData[start:])}, nil
}

// VerifC13Seek: any sequence of k Read/Seek calls on the range-based ReadSeekCloser with 64-bit
// symbolic offsets: the position arithmetic never wraps into a success, Range requests are only
// issued for 0 <= offset < size, and the bytes read are the blob's bytes at the logical position.
func VerifC13Seek() {
	k := verifrt.Param("k", 3)
	peer := &rangePeer{dataEOF: verifrt.Bool()}
	req, err := http.NewRequestWithContext(context.Background(), http.MethodGet, "https://r.io/v2/a/b/blobs/sha256:x", nil)
	if err != nil {
		panic(err)
	}
	size := int64(len(seekData))
	rsc := NewReadSeekCloser(peer, req, peer.body(seekData), size)
	pos := int64(0) // the logical position
	if verifrt.Param("pre", 0) != 0 {
		// start from a valid state other than the initial one (representation invariant: offset is
		// the logical position and the body is positioned there): start, two before the end, end
		pos = []int64{0, size - 2, size}[verifrt.Choice(3)]
		r := rsc.(*readSeekCloser)
		r.offset = pos
		if pos >= size {
			r.rc = http.NoBody
		} else {
			r.rc = peer.body(seekData[pos:])
		}
	}
	for step := 0; step < k; step++ {
		if verifrt.Bool() {
			n := 1 + verifrt.Choice(3)
			buf := make([]byte, n)
			got, rerr := io.ReadFull(rsc, buf)
			want := ""
			if pos < size {
				end := pos + int64(n)
				if end > size {
					end = size
				}
				want = seekData[pos:end]
			}
			verifrt.Event(fmt.Sprintf("Read(%d)", n))
			verifrt.Assert(string(buf[:got]) == want, "C13.seek.read-bytes-at-position")
			if len(want) < n {
				verifrt.Assert(rerr != nil, "C13.seek.read-past-end-reports")
			}
			pos += int64(got)
			continue
		}
		off := verifrt.Int64()
		whence := verifrt.Choice(3)
		base := int64(0)
		switch whence {
		case io.SeekCurrent:
			base = pos
		case io.SeekEnd:
			base = size
		}
		// mathematical target = base + off (base >= 0): overflows iff off > MaxInt64 - base
		overflow := off > math.MaxInt64-base
		np, serr := rsc.Seek(off, whence)
		if serr == nil {
			verifrt.Assert(!overflow, "C13.seek.no-wrap-into-success")
			verifrt.Assert(np == base+off && np >= 0, "C13.seek.position-arithmetic")
			pos = np
			verifrt.Reach("C13.seek.moved")
		} else {
			verifrt.Assert(overflow || base+off < 0, "C13.seek.only-invalid-targets-fail")
			verifrt.Reach("C13.seek.refused")
		}
		verifrt.Assert(peer.bad == "", "C13.seek.range-requests-valid")
	}
}
