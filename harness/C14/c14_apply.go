//go:build verif

package remote

import (
	"github.com/opencontainers/go-digest"
	ocispec "github.com/opencontainers/image-spec/specs-go/v1"
	"oras.land/oras-go/v2/internal/verifrt"
)

const c14Zeros = "000000000000000000000000000000000000000000000000000000000000000"

// c14Desc: a descriptor whose identity is one symbolic hex character (universe of 3).
func c14Desc() ocispec.Descriptor {
	return ocispec.Descriptor{
		MediaType: ocispec.MediaTypeImageManifest,
		Digest:    digest.Digest("sha256:" + c14Zeros + verifrt.StringOver("012", 1, 1)),
		Size:      7,
	}
}

func c14Same(a, b ocispec.Descriptor) bool {
	return verifrt.And(verifrt.StrEq(string(a.Digest), string(b.Digest)), verifrt.And(a.Size == b.Size, a.MediaType == b.MediaType))
}

func c14IsEmpty(d ocispec.Descriptor) bool { return d.Digest == "" && d.MediaType == "" && d.Size == 0 }

func c14Index(list []ocispec.Descriptor, d ocispec.Descriptor) int {
	for i := range list {
		if c14Same(list[i], d) {
			return i
		}
	}
	return -1
}

// VerifC14Apply: applyReferrerChanges is an ordered-set update: duplicates and empty
// entries of the old index are dropped, adds append once, removes delete, and
// errNoReferrerUpdate is returned exactly when the set of referrers does not change.
func VerifC14Apply() {
	L := verifrt.Param("L", 2)
	C := verifrt.Param("C", 2)
	nOld := verifrt.Choice(L + 1)
	var old []ocispec.Descriptor
	for i := 0; i < nOld; i++ {
		if verifrt.Bool() {
			old = append(old, ocispec.Descriptor{}) // bad (empty) entry of a pre-existing index
		} else {
			old = append(old, c14Desc())
		}
	}
	nCh := verifrt.Choice(C + 1)
	var changes []referrerChange
	for i := 0; i < nCh; i++ {
		op := referrerOperationAdd
		if verifrt.Bool() {
			op = referrerOperationRemove
		}
		changes = append(changes, referrerChange{referrer: c14Desc(), operation: op})
	}
	oldCopy := append([]ocispec.Descriptor(nil), old...)
	got, err := applyReferrerChanges(old, changes)

	// reference: ordered set
	var want []ocispec.Descriptor
	cleaned := false
	for _, d := range oldCopy {
		if c14IsEmpty(d) || c14Index(want, d) >= 0 {
			cleaned = true
			continue
		}
		want = append(want, d)
	}
	base := append([]ocispec.Descriptor(nil), want...)
	for _, ch := range changes {
		i := c14Index(want, ch.referrer)
		if ch.operation == referrerOperationAdd && i < 0 {
			want = append(want, ch.referrer)
		} else if ch.operation == referrerOperationRemove && i >= 0 {
			want = append(append([]ocispec.Descriptor(nil), want[:i]...), want[i+1:]...)
		}
	}
	sameSet := len(want) == len(base)
	if sameSet {
		for _, d := range base {
			if c14Index(want, d) < 0 {
				sameSet = false
			}
		}
	}
	unchanged := sameSet && !cleaned
	if err != nil {
		verifrt.Assert(err == errNoReferrerUpdate, "C14.apply.error-kind")
		verifrt.Assert(unchanged, "C14.apply.noupdate-only-if-unchanged")
		verifrt.Reach("C14.apply.noupdate")
		return
	}
	verifrt.Assert(!unchanged, "C14.apply.noupdate-if-unchanged")
	verifrt.Assert(len(got) == len(want), "C14.apply.len")
	if len(got) == len(want) {
		for i := range got {
			verifrt.Assert(c14Same(got[i], want[i]), "C14.apply.elements")
		}
	}
	verifrt.Reach("C14.apply.updated")
}
