//go:build verif

package remote

import (
	"bytes"
	"context"
	"encoding/json"
	"fmt"
	"sort"

	"github.com/opencontainers/image-spec/specs-go"
	ocispec "github.com/opencontainers/image-spec/specs-go/v1"
	"oras.land/oras-go/v2/content"
	"oras.land/oras-go/v2/internal/verifrt"
	"oras.land/oras-go/v2/registry"
)

func c14Referrer(subject ocispec.Descriptor, n int, cfg ocispec.Descriptor) c13Content {
	m := ocispec.Manifest{Versioned: specs.Versioned{SchemaVersion: 2}, MediaType: ocispec.MediaTypeImageManifest,
		ArtifactType: fmt.Sprintf("application/vnd.test.r%d", n), Config: cfg, Layers: []ocispec.Descriptor{},
		Subject: &subject, Annotations: map[string]string{"n": fmt.Sprint(n)}}
	b, _ := json.Marshal(m)
	return c13Content{content.NewDescriptorFromBytes(m.MediaType, b), b}
}

func c14List(ctx context.Context, repo *Repository, subject ocispec.Descriptor) ([]string, error) {
	var got []string
	err := repo.Referrers(ctx, subject, "", func(rs []ocispec.Descriptor) error {
		for _, r := range rs {
			got = append(got, fmt.Sprintf("%s %s %s %v", r.MediaType, r.Digest, r.ArtifactType, r.Annotations["n"]))
		}
		return nil
	})
	sort.Strings(got)
	return got, err
}

// VerifC14Concurrent: referrers of one subject are pushed (and one of them deleted again) through
// one Repository on a registry without the Referrers API — sequentially or from two goroutines
// whose HTTP exchanges interleave in every cooperative schedule. After quiescence listing the
// referrers gives exactly the live manifests, each once, with artifact type and annotations, and
// equals what the same history gives with the Referrers API; no dangling index manifest is left.
func VerifC14Concurrent() {
	ctx := context.Background()
	verifrt.Sched(verifrt.Param("sched", verifrt.SchedAll))
	uni := c13Universe()
	subject := uni[2]
	mkRepo := func(api bool) (*Repository, *regModel) {
		reg := newRegModel()
		reg.refAPI = api
		reg.digestHdr = true
		repo := &Repository{Reference: registry.Reference{Registry: "r.io", Repository: "a/b"}, Client: reg}
		reg.blobs[string(uni[1].desc.Digest)] = uni[1].data
		reg.manifests[string(subject.desc.Digest)] = subject.data
		reg.mediaTypes[string(subject.desc.Digest)] = subject.desc.MediaType
		return repo, reg
	}
	r1 := c14Referrer(subject.desc, 1, uni[1].desc)
	r2 := c14Referrer(subject.desc, 2, uni[1].desc)
	deleteR1 := verifrt.Bool()
	concurrent := verifrt.Bool()

	run := func(repo *Repository, reg *regModel, conc bool) {
		reg.yield = conc
		op1 := func() {
			must(repo.Push(ctx, r1.desc, bytes.NewReader(r1.data)))
			if deleteR1 {
				must(repo.Delete(ctx, r1.desc))
			}
		}
		op2 := func() { must(repo.Push(ctx, r2.desc, bytes.NewReader(r2.data))) }
		if !conc {
			op1()
			op2()
			return
		}
		done := make(chan bool, 2)
		go func() { op1(); done <- true }()
		go func() { op2(); done <- true }()
		<-done
		<-done
		reg.yield = false
	}
	repo, reg := mkRepo(false)
	run(repo, reg, concurrent)
	got, err := c14List(ctx, repo, subject.desc)
	verifrt.Assert(err == nil, "C14.list.succeeds")
	// reference: the same history on a registry with the Referrers API
	repoAPI, regAPI := mkRepo(true)
	run(repoAPI, regAPI, false)
	want, err2 := c14List(ctx, repoAPI, subject.desc)
	verifrt.Assert(err2 == nil, "C14.list-api.succeeds")
	verifrt.Assert(fmt.Sprint(got) == fmt.Sprint(want), "C14.exact.equals-referrers-api")
	wantN := 2
	if deleteR1 {
		wantN = 1
	}
	verifrt.Assert(len(got) == wantN, "C14.exact.live-referrers-each-once")
	// superseded index manifests are deleted: at most one index manifest is left in the registry
	indexes := 0
	for d := range reg.manifests {
		if reg.mediaTypes[d] == ocispec.MediaTypeImageIndex {
			indexes++
		}
	}
	verifrt.Assert(indexes <= 1, "C14.gc.no-dangling-index")
	verifrt.Assert(reg.badRequest == "" && regAPI.badRequest == "", "C13.request-allowed-by-spec")
	if concurrent {
		verifrt.Reach("C14.concurrent.end")
	} else {
		verifrt.Reach("C14.sequential.end")
	}
}

func must(err error) {
	if err != nil {
		panic(err)
	}
}
