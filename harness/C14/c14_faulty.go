//go:build verif

package remote

import (
	"bytes"
	"context"
	"encoding/json"
	"errors"
	"strings"

	"github.com/opencontainers/image-spec/specs-go"
	ocispec "github.com/opencontainers/image-spec/specs-go/v1"
	"oras.land/oras-go/v2/content"
	"oras.land/oras-go/v2/internal/verifrt"
	"oras.land/oras-go/v2/registry"
)

func c14IndexHas(index []byte, d ocispec.Descriptor) bool {
	var idx ocispec.Index
	if len(index) == 0 || json.Unmarshal(index, &idx) != nil {
		return false
	}
	for _, m := range idx.Manifests {
		if m.Digest == d.Digest {
			return true
		}
	}
	return false
}

// VerifC14Faulty: two referrers of one subject are pushed through one Repository on a registry
// without the Referrers API that already holds a referrers index, sequentially or from two
// goroutines in every cooperative interleaving of the HTTP exchanges, while the registry fails
// one exchange of the index read-modify-write (index fetch, index push, or deletion of the
// superseded index). An operation that reports success has its update listed; a failed deletion
// of the superseded index is reported, as a referrers-index-delete error, to exactly the
// operations whose update that batch wrote, and their update took effect.
func VerifC14Faulty() {
	ctx := context.Background()
	verifrt.Sched(verifrt.Param("sched", verifrt.SchedAll))
	uni := c13Universe()
	subject := uni[2]
	reg := newRegModel()
	reg.digestHdr = true
	repo := &Repository{Reference: registry.Reference{Registry: "r.io", Repository: "a/b"}, Client: reg}
	reg.blobs[string(uni[1].desc.Digest)] = uni[1].data
	reg.manifests[string(subject.desc.Digest)] = subject.data
	reg.mediaTypes[string(subject.desc.Digest)] = subject.desc.MediaType
	r0 := c14Referrer(subject.desc, 0, uni[1].desc)
	rs := []c13Content{c14Referrer(subject.desc, 1, uni[1].desc), c14Referrer(subject.desc, 2, uni[1].desc)}
	// pre-existing referrers index listing r0
	reg.manifests[string(r0.desc.Digest)] = r0.data
	reg.mediaTypes[string(r0.desc.Digest)] = r0.desc.MediaType
	d0 := r0.desc
	d0.ArtifactType = "application/vnd.test.r0"
	d0.Annotations = map[string]string{"n": "0"}
	idx := ocispec.Index{Versioned: specs.Versioned{SchemaVersion: 2}, MediaType: ocispec.MediaTypeImageIndex, Manifests: []ocispec.Descriptor{d0}}
	idxBytes, _ := json.Marshal(idx)
	idxDesc := content.NewDescriptorFromBytes(ocispec.MediaTypeImageIndex, idxBytes)
	reg.manifests[string(idxDesc.Digest)] = idxBytes
	reg.mediaTypes[string(idxDesc.Digest)] = ocispec.MediaTypeImageIndex
	reg.tags[strings.Replace(string(subject.desc.Digest), ":", "-", 1)] = string(idxDesc.Digest)

	reg.failKind = 1 + verifrt.Choice(3)
	concurrent := verifrt.Bool()
	errs := make([]error, 2)
	if concurrent {
		reg.yield = true
		done := make(chan bool, 2)
		for i := range rs {
			i := i
			go func() { errs[i] = repo.Push(ctx, rs[i].desc, bytes.NewReader(rs[i].data)); done <- true }()
		}
		<-done
		<-done
		reg.yield = false
	} else {
		for i := range rs {
			errs[i] = repo.Push(ctx, rs[i].desc, bytes.NewReader(rs[i].data))
		}
	}
	verifrt.Assert(reg.failFired, "C14.faulty.failure-injected")
	got, err := c14List(ctx, repo, subject.desc)
	verifrt.Assert(err == nil, "C14.list.succeeds")
	listed := func(d ocispec.Descriptor) bool {
		for _, g := range got {
			if strings.Contains(g, string(d.Digest)) {
				return true
			}
		}
		return false
	}
	verifrt.Assert(listed(r0.desc), "C14.faulty.existing-referrer-kept")
	nErr := 0
	for i := range rs {
		if errs[i] == nil {
			// lose no update: what was reported as pushed is listed
			verifrt.Assert(listed(rs[i].desc), "C14.faulty.successful-push-listed")
			continue
		}
		nErr++
	}
	verifrt.Assert(nErr >= 1, "C14.faulty.failure-reported")
	if reg.failKind == 3 {
		// the update itself took effect
		verifrt.Assert(len(got) == 3, "C14.faulty.delete-failure.update-took-effect")
		for i := range rs {
			member := c14IndexHas(reg.failedPut, rs[i].desc) && !c14IndexHas(reg.failedOld, rs[i].desc)
			var re *ReferrersError
			isDel := errs[i] != nil && errors.As(errs[i], &re) && re.IsReferrersIndexDelete()
			if member {
				verifrt.Assert(isDel, "C14.faulty.delete-failure.reported-to-batch")
			} else {
				verifrt.Assert(errs[i] == nil, "C14.faulty.delete-failure.not-reported-to-others")
			}
		}
	}
	if reg.failKind == 2 {
		for i := range rs {
			member := c14IndexHas(reg.failedPut, rs[i].desc) && !c14IndexHas(reg.failedOld, rs[i].desc)
			if member {
				verifrt.Assert(errs[i] != nil, "C14.faulty.push-failure.reported-to-batch")
			}
		}
	}
	verifrt.Assert(reg.badRequest == "", "C13.request-allowed-by-spec")
	if concurrent {
		verifrt.Reach("C14.faulty.concurrent.end")
	} else {
		verifrt.Reach("C14.faulty.sequential.end")
	}
}
